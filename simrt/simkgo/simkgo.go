// Package simkgo replaces github.com/twmb/franz-go/pkg/kgo in the packages of
// file.d that talk to Kafka (plugin/input/kafka, plugin/output/kafka, cfg).
// Option constructors are recorded no-ops; the data types are aliases of the
// real ones. Behind the Client sits a simulated broker that the harness
// installs in the running simulation: topics x partitions x logs, one consumer
// group member (this client) with assign / revoke callbacks, PollRecords with
// seeded batch sizes, MarkCommitOffsets with the real client's rule (the marked
// head of a partition only moves forward in (epoch, offset) order, see
// franz-go pkg/kgo/consumer_group.go), commits on revoke and on request,
// ProduceSync with per-call success / error.
package simkgo

import (
	"context"
	"crypto/tls"
	"errors"
	"sort"
	"time"

	"github.com/twmb/franz-go/pkg/kgo"
	"github.com/twmb/franz-go/pkg/sasl"
	"verif/simrt"
)

type (
	Record              = kgo.Record
	EpochOffset         = kgo.EpochOffset
	FetchTopicPartition = kgo.FetchTopicPartition
	Fetches             = kgo.Fetches
	Fetch               = kgo.Fetch
	FetchTopic          = kgo.FetchTopic
	FetchPartition      = kgo.FetchPartition
	FetchError          = kgo.FetchError
	ProduceResults      = kgo.ProduceResults
	ProduceResult       = kgo.ProduceResult
	Logger              = kgo.Logger
	LogLevel            = kgo.LogLevel
)

// Opt is a recorded option.
type Opt struct {
	Name string
	Val  any
}

type Offset struct{ at string }

func NewOffset() Offset          { return Offset{} }
func (o Offset) AtStart() Offset { o.at = "start"; return o }
func (o Offset) AtEnd() Offset   { o.at = "end"; return o }

type (
	GroupBalancer    struct{ name string }
	CompressionCodec struct{ name string }
	Acks             struct{ name string }
)

func RoundRobinBalancer() GroupBalancer        { return GroupBalancer{"round-robin"} }
func RangeBalancer() GroupBalancer             { return GroupBalancer{"range"} }
func StickyBalancer() GroupBalancer            { return GroupBalancer{"sticky"} }
func CooperativeStickyBalancer() GroupBalancer { return GroupBalancer{"cooperative-sticky"} }
func NoCompression() CompressionCodec          { return CompressionCodec{"none"} }
func GzipCompression() CompressionCodec        { return CompressionCodec{"gzip"} }
func SnappyCompression() CompressionCodec      { return CompressionCodec{"snappy"} }
func Lz4Compression() CompressionCodec         { return CompressionCodec{"lz4"} }
func ZstdCompression() CompressionCodec        { return CompressionCodec{"zstd"} }
func NoAck() Acks                              { return Acks{"no"} }
func LeaderAck() Acks                          { return Acks{"leader"} }
func AllISRAcks() Acks                         { return Acks{"all"} }

func SeedBrokers(b ...string) Opt                        { return Opt{"SeedBrokers", b} }
func ClientID(id string) Opt                             { return Opt{"ClientID", id} }
func WithLogger(l any) Opt                               { return Opt{"WithLogger", nil} }
func SASL(m ...sasl.Mechanism) Opt                       { return Opt{"SASL", nil} }
func DialTLSConfig(c *tls.Config) Opt                    { return Opt{"DialTLSConfig", nil} }
func ConsumerGroup(g string) Opt                         { return Opt{"ConsumerGroup", g} }
func ConsumeTopics(t ...string) Opt                      { return Opt{"ConsumeTopics", t} }
func FetchMaxWait(d time.Duration) Opt                   { return Opt{"FetchMaxWait", d} }
func AutoCommitMarks() Opt                               { return Opt{"AutoCommitMarks", true} }
func MaxConcurrentFetches(n int) Opt                     { return Opt{"MaxConcurrentFetches", n} }
func FetchMaxBytes(n int32) Opt                          { return Opt{"FetchMaxBytes", n} }
func FetchMinBytes(n int32) Opt                          { return Opt{"FetchMinBytes", n} }
func AutoCommitInterval(d time.Duration) Opt             { return Opt{"AutoCommitInterval", d} }
func SessionTimeout(d time.Duration) Opt                 { return Opt{"SessionTimeout", d} }
func HeartbeatInterval(d time.Duration) Opt              { return Opt{"HeartbeatInterval", d} }
func BlockRebalanceOnPoll() Opt                          { return Opt{"BlockRebalanceOnPoll", true} }
func ConsumeResetOffset(o Offset) Opt                    { return Opt{"ConsumeResetOffset", o} }
func Balancers(b ...GroupBalancer) Opt                   { return Opt{"Balancers", b} }
func DefaultProduceTopic(t string) Opt                   { return Opt{"DefaultProduceTopic", t} }
func MaxBufferedRecords(n int) Opt                       { return Opt{"MaxBufferedRecords", n} }
func ProducerBatchMaxBytes(n int32) Opt                  { return Opt{"ProducerBatchMaxBytes", n} }
func ProducerLinger(d time.Duration) Opt                 { return Opt{"ProducerLinger", d} }
func AllowAutoTopicCreation() Opt                        { return Opt{"AllowAutoTopicCreation", true} }
func RecordRetries(n int) Opt                            { return Opt{"RecordRetries", n} }
func ProducerBatchCompression(c ...CompressionCodec) Opt { return Opt{"ProducerBatchCompression", c} }
func RequiredAcks(a Acks) Opt                            { return Opt{"RequiredAcks", a} }
func DisableIdempotentWrite() Opt                        { return Opt{"DisableIdempotentWrite", true} }

type callback = func(context.Context, *Client, map[string][]int32)

func OnPartitionsAssigned(f callback) Opt { return Opt{"OnPartitionsAssigned", f} }
func OnPartitionsRevoked(f callback) Opt  { return Opt{"OnPartitionsRevoked", f} }
func OnPartitionsLost(f callback) Opt     { return Opt{"OnPartitionsLost", f} }

// ---------------------------------------------------------------------------
// broker

type TP struct {
	Topic     string
	Partition int32
}

type partition struct {
	log       []*Record
	committed EpochOffset // broker side (group offset)
	hasCommit bool
}

// Broker is the simulated cluster; create it with NewBroker inside a running
// simulation before the plugin starts.
type Broker struct {
	parts map[TP]*partition
	// Observers (harness).
	OnMark    func(tp TP, head EpochOffset, call EpochOffset)
	OnConsume func(r *Record)
	OnProduce func(rs []*Record) error // nil = success
	Produced  []*Record
	Clients   []*Client
	MaxPoll   int
}

const key = "simkgo.broker"

func NewBroker() *Broker {
	b := &Broker{parts: map[TP]*partition{}}
	simrt.Active().Locals[key] = b
	return b
}

func cur() *Broker {
	if s := simrt.Active(); s != nil {
		if b, ok := s.Locals[key].(*Broker); ok {
			return b
		}
	}
	return nil
}

// Append adds a record to a partition log (producer side of the harness).
func (b *Broker) Append(topic string, part int32, r *Record) {
	tp := TP{topic, part}
	p := b.parts[tp]
	if p == nil {
		p = &partition{}
		b.parts[tp] = p
	}
	r.Topic, r.Partition = topic, part
	p.log = append(p.log, r)
}

func (b *Broker) Committed(tp TP) (EpochOffset, bool) {
	if p := b.parts[tp]; p != nil {
		return p.committed, p.hasCommit
	}
	return EpochOffset{}, false
}

func (b *Broker) tps() []TP {
	var out []TP
	for tp := range b.parts {
		out = append(out, tp)
	}
	sort.Slice(out, func(i, j int) bool {
		if out[i].Topic != out[j].Topic {
			return out[i].Topic < out[j].Topic
		}
		return out[i].Partition < out[j].Partition
	})
	return out
}

// ---------------------------------------------------------------------------
// client

type Client struct {
	b        *Broker
	opts     map[string]any
	topics   map[string]bool
	assigned map[TP]bool
	pos      map[TP]int // index into the partition log of the next record to fetch
	marked   map[TP]EpochOffset
	hasMark  map[TP]bool
	closed   bool
	joined   bool
	allowReb bool
	lastAuto time.Time
}

func NewClient(opts ...Opt) (*Client, error) {
	b := cur()
	if b == nil {
		return nil, errors.New("simkgo: no simulated broker installed")
	}
	c := &Client{b: b, opts: map[string]any{}, topics: map[string]bool{}, assigned: map[TP]bool{}, pos: map[TP]int{}, marked: map[TP]EpochOffset{}, hasMark: map[TP]bool{}, allowReb: true}
	for _, o := range opts {
		c.opts[o.Name] = o.Val
	}
	if ts, ok := c.opts["ConsumeTopics"].([]string); ok {
		for _, t := range ts {
			c.topics[t] = true
		}
	}
	b.Clients = append(b.Clients, c)
	return c, nil
}

func (c *Client) Ping(ctx context.Context) error {
	simrt.IOPoint()
	return nil
}

func (c *Client) cb(name string) callback {
	f, _ := c.opts[name].(callback)
	return f
}

func group(tps []TP) map[string][]int32 {
	m := map[string][]int32{}
	for _, tp := range tps {
		m[tp.Topic] = append(m[tp.Topic], tp.Partition)
	}
	return m
}

// startPos: where fetching (re)starts for a partition: the group's committed
// offset if there is one, else the beginning of the log.
func (c *Client) startPos(tp TP) int {
	p := c.b.parts[tp]
	if p == nil || !p.hasCommit {
		return 0
	}
	for i, r := range p.log {
		if r.Offset >= p.committed.Offset {
			return i
		}
	}
	return len(p.log)
}

func (c *Client) join(ctx context.Context) {
	var mine []TP
	for _, tp := range c.b.tps() {
		if c.topics[tp.Topic] && !c.assigned[tp] {
			mine = append(mine, tp)
		}
	}
	if len(mine) == 0 {
		return
	}
	for _, tp := range mine {
		c.assigned[tp] = true
		c.pos[tp] = c.startPos(tp)
	}
	if f := c.cb("OnPartitionsAssigned"); f != nil {
		f(ctx, c, group(mine))
	}
}

// commitMarked pushes the marked heads to the broker.
func (c *Client) commitMarked() {
	for tp, m := range c.marked {
		if !c.hasMark[tp] {
			continue
		}
		if p := c.b.parts[tp]; p != nil {
			p.committed, p.hasCommit = m, true
		}
	}
}

// rebalance revokes a seeded subset of the assignment (committing the marks
// first, as the real client does with autocommit) and hands it back.
func (c *Client) rebalance(ctx context.Context) {
	var all []TP
	for _, tp := range c.b.tps() {
		if c.assigned[tp] {
			all = append(all, tp)
		}
	}
	if len(all) == 0 {
		return
	}
	w := simrt.Active().WorldRand()
	var lost []TP
	for _, tp := range all {
		if w.IntN(2) == 0 {
			lost = append(lost, tp)
		}
	}
	if len(lost) == 0 {
		lost = all[:1]
	}
	simrt.Probe("kafka.rebalance")
	if f := c.cb("OnPartitionsRevoked"); f != nil {
		f(ctx, c, group(lost))
	}
	c.commitMarked()
	for _, tp := range lost {
		delete(c.assigned, tp)
		delete(c.marked, tp)
		delete(c.hasMark, tp)
	}
	c.join(ctx)
}

func (c *Client) PollRecords(ctx context.Context, maxPollRecords int) Fetches {
	for {
		if c.closed {
			return kgo.NewErrFetch(kgo.ErrClientClosed)
		}
		if simrt.Dead() {
			return kgo.NewErrFetch(kgo.ErrClientClosed)
		}
		simrt.IOPoint()
		if err := ctx.Err(); err != nil {
			return kgo.NewErrFetch(err)
		}
		if !c.joined {
			c.joined = true
			c.join(ctx)
		} else if c.allowReb {
			// new partitions/topics appear through a rebalance too
			c.join(ctx)
			if simrt.Decide("kafka.rebalance") {
				c.rebalance(ctx)
			}
		}
		c.autoCommit()
		if simrt.Decide("kafka.fetcherr") {
			c.allowReb = false
			return Fetches{{Topics: []FetchTopic{{Topic: "", Partitions: []FetchPartition{{Partition: -1, Err: errors.New("simulated fetch error")}}}}}}
		}
		// gather records
		budget := maxPollRecords
		if budget <= 0 {
			budget = 1 << 30
		}
		if c.b.MaxPoll > 0 && budget > c.b.MaxPoll {
			budget = c.b.MaxPoll
		}
		w := simrt.Active().WorldRand()
		byTopic := map[string]*FetchTopic{}
		var order []string
		n := 0
		for _, tp := range c.b.tps() {
			if !c.assigned[tp] || n >= budget {
				continue
			}
			p := c.b.parts[tp]
			avail := len(p.log) - c.pos[tp]
			if avail <= 0 {
				continue
			}
			take := 1 + w.IntN(min(avail, budget-n))
			recs := p.log[c.pos[tp] : c.pos[tp]+take]
			c.pos[tp] += take
			n += take
			ft := byTopic[tp.Topic]
			if ft == nil {
				ft = &FetchTopic{Topic: tp.Topic}
				byTopic[tp.Topic] = ft
				order = append(order, tp.Topic)
			}
			cp := make([]*Record, len(recs))
			for i, r := range recs {
				rc := *r
				cp[i] = &rc
				if c.b.OnConsume != nil {
					c.b.OnConsume(&rc)
				}
			}
			ft.Partitions = append(ft.Partitions, FetchPartition{Partition: tp.Partition, Records: cp})
		}
		if n > 0 {
			c.allowReb = false
			var f Fetch
			for _, t := range order {
				f.Topics = append(f.Topics, *byTopic[t])
			}
			return Fetches{f}
		}
		// nothing to fetch: wait (FetchMaxWait) and try again
		c.allowReb = true
		simrt.Sleep(50 * time.Millisecond)
	}
}

func (c *Client) autoCommit() {
	iv, _ := c.opts["AutoCommitInterval"].(time.Duration)
	if iv <= 0 {
		iv = 5 * time.Second
	}
	if simrt.Since(c.lastAuto) >= iv {
		c.lastAuto = simrt.Now()
		c.commitMarked()
	}
}

func (c *Client) AllowRebalance() { c.allowReb = true }

// MarkCommitOffsets follows the real client: only assigned partitions, and the
// head only moves forward in (epoch, offset) order.
func (c *Client) MarkCommitOffsets(unmarked map[string]map[int32]EpochOffset) {
	if simrt.Dead() {
		return
	}
	simrt.IOPoint()
	for topic, parts := range unmarked {
		for part, eo := range parts {
			tp := TP{topic, part}
			if !c.assigned[tp] {
				if c.b.OnMark != nil {
					c.b.OnMark(tp, EpochOffset{Epoch: -1, Offset: -1}, eo)
				}
				continue
			}
			cur, has := c.marked[tp], c.hasMark[tp]
			if !has || eo.Epoch > cur.Epoch || (eo.Epoch == cur.Epoch && eo.Offset > cur.Offset) {
				c.marked[tp], c.hasMark[tp] = eo, true
			}
			if c.b.OnMark != nil {
				c.b.OnMark(tp, c.marked[tp], eo)
			}
		}
	}
}

func (c *Client) CommitMarkedOffsets(ctx context.Context) error {
	simrt.IOPoint()
	c.commitMarked()
	return nil
}

// CommitUncommittedOffsets commits, like the real client, the position behind the last record handed out by
// PollRecords for every assigned partition ("dirty" offsets) - whatever has or has not been marked.
func (c *Client) CommitUncommittedOffsets(ctx context.Context) error {
	simrt.IOPoint()
	for _, tp := range c.b.tps() {
		if !c.assigned[tp] {
			continue
		}
		p := c.b.parts[tp]
		i := c.pos[tp]
		if p == nil || i == 0 || i > len(p.log) {
			continue
		}
		last := p.log[i-1]
		eo := EpochOffset{Epoch: last.LeaderEpoch, Offset: last.Offset + 1}
		p.committed, p.hasCommit = eo, true
		if c.b.OnMark != nil {
			c.b.OnMark(tp, eo, eo)
		}
	}
	return nil
}

// MarkCommitRecords marks the records' offsets + 1 (as the real client does).
func (c *Client) MarkCommitRecords(rs ...*Record) {
	m := map[string]map[int32]EpochOffset{}
	for _, r := range rs {
		if m[r.Topic] == nil {
			m[r.Topic] = map[int32]EpochOffset{}
		}
		if cur, ok := m[r.Topic][r.Partition]; !ok || r.Offset+1 > cur.Offset {
			m[r.Topic][r.Partition] = EpochOffset{Epoch: r.LeaderEpoch, Offset: r.Offset + 1}
		}
	}
	c.MarkCommitOffsets(m)
}

// CommitRecords commits the offsets behind the given records at once.
func (c *Client) CommitRecords(ctx context.Context, rs ...*Record) error {
	c.MarkCommitRecords(rs...)
	return c.CommitMarkedOffsets(ctx)
}

// MarkedOffsets / CommittedOffsets / UncommittedOffsets mirror the real client's introspection.
func (c *Client) MarkedOffsets() map[string]map[int32]EpochOffset {
	m := map[string]map[int32]EpochOffset{}
	for _, tp := range c.b.tps() {
		if c.hasMark[tp] {
			if m[tp.Topic] == nil {
				m[tp.Topic] = map[int32]EpochOffset{}
			}
			m[tp.Topic][tp.Partition] = c.marked[tp]
		}
	}
	return m
}

func (c *Client) CommittedOffsets() map[string]map[int32]EpochOffset {
	m := map[string]map[int32]EpochOffset{}
	for _, tp := range c.b.tps() {
		if p := c.b.parts[tp]; p != nil && p.hasCommit && c.assigned[tp] {
			if m[tp.Topic] == nil {
				m[tp.Topic] = map[int32]EpochOffset{}
			}
			m[tp.Topic][tp.Partition] = p.committed
		}
	}
	return m
}

func (c *Client) UncommittedOffsets() map[string]map[int32]EpochOffset { return c.MarkedOffsets() }

// PollFetches is PollRecords without a limit.
func (c *Client) PollFetches(ctx context.Context) Fetches { return c.PollRecords(ctx, 0) }

// LeaveGroup gives the assignment back (committing what is marked first, as autocommit does).
func (c *Client) LeaveGroup() {
	c.commitMarked()
	for tp := range c.assigned {
		delete(c.assigned, tp)
	}
}

func (c *Client) Close() {
	if c.closed {
		return
	}
	c.closed = true
}

func (c *Client) ForceMetadataRefresh() {}

func (c *Client) ProduceSync(ctx context.Context, rs ...*Record) ProduceResults {
	if simrt.Dead() {
		return ProduceResults{{Err: errors.New("closed")}}
	}
	simrt.IOPoint()
	var err error
	if c.b.OnProduce != nil {
		err = c.b.OnProduce(rs)
	}
	out := make(ProduceResults, 0, len(rs))
	for _, r := range rs {
		if err == nil {
			rc := *r
			rc.Value = append([]byte(nil), r.Value...)
			rc.Key = append([]byte(nil), r.Key...)
			c.b.Produced = append(c.b.Produced, &rc)
		}
		out = append(out, ProduceResult{Record: r, Err: err})
	}
	return out
}
