// Package simexec replaces "os/exec" in the file input plugin, whose only use
// of it is `lsof <path>` to ask whether somebody still writes to a compressed
// file. Inside a simulation there are no other processes: the files of the
// simulated disk are written by the harness without descriptors, so lsof finds
// nothing and exits 1, which is what the stub answers (a scheduling point, no
// fork). Outside a simulation the real package is used.
package simexec

import (
	"errors"
	"os/exec"

	"verif/simrt"
)

type Cmd struct {
	real *exec.Cmd
	name string
}

// ErrExit1 is the answer of `lsof` for a file nobody has open.
var ErrExit1 = errors.New("exit status 1")

func Command(name string, arg ...string) *Cmd {
	if !simrt.InSim() {
		return &Cmd{real: exec.Command(name, arg...)}
	}
	return &Cmd{name: name}
}

func (c *Cmd) Output() ([]byte, error) {
	if c.real != nil {
		return c.real.Output()
	}
	simrt.Point()
	simrt.Probe("exec." + c.name)
	return nil, ErrExit1
}
