// Package simnotify replaces github.com/rjeczalik/notify in the file input:
// the simulated disk emits Create/Rename/Remove/Write events to the registered
// channels, with seeded delay and duplication for every kind and seeded loss
// for Write events only (new files are discovered only through Create
// notifications, and file.d promises nothing about lost inotify events).
package simnotify

import (
	"strings"
	"time"

	"github.com/rjeczalik/notify"
	"verif/simrt"
	"verif/simrt/simos"
)

type (
	Event     = notify.Event
	EventInfo = notify.EventInfo
)

const (
	Create = notify.Create
	Remove = notify.Remove
	Write  = notify.Write
	Rename = notify.Rename
	All    = notify.All
)

type evInfo struct {
	e Event
	p string
}

func (e evInfo) Event() Event { return e.e }
func (e evInfo) Path() string { return e.p }
func (e evInfo) Sys() any     { return nil }

type watch struct {
	c      chan<- EventInfo
	prefix string // as given by the watcher (may be an alias path)
	canon  string // canonical directory on the simulated disk
	rec    bool
	mask   Event
	group  int
}

const key = "simnotify.watches"

func watches() *[]*watch {
	s := simrt.Active()
	if s == nil {
		return nil
	}
	w, ok := s.Locals[key].(*[]*watch)
	if !ok {
		w = &[]*watch{}
		s.Locals[key] = w
	}
	return w
}

func Watch(path string, c chan<- EventInfo, events ...Event) error {
	fs := simos.Cur()
	if fs == nil {
		return notify.Watch(path, c, events...)
	}
	if simrt.Dead() {
		return nil
	}
	w := &watch{c: c, group: simrt.Group()}
	if strings.HasSuffix(path, "...") {
		w.rec = true
		path = strings.TrimSuffix(path, "...")
	}
	path = strings.TrimSuffix(path, "/")
	if path == "" {
		path = "/"
	}
	w.prefix = path
	w.canon = fs.Canonical(path)
	for _, e := range events {
		w.mask |= e
	}
	ws := watches()
	*ws = append(*ws, w)
	if fs.Watch == nil {
		fs.Watch = func(event, p string) { emit(event, p) }
	}
	return nil
}

func Stop(c chan<- EventInfo) {
	if simos.Cur() == nil {
		notify.Stop(c)
		return
	}
	ws := watches()
	if ws == nil {
		return
	}
	k := 0
	for _, w := range *ws {
		if w.c != c {
			(*ws)[k] = w
			k++
		}
	}
	*ws = (*ws)[:k]
}

// StopGroup drops the watches of a killed process.
func StopGroup(group int) {
	ws := watches()
	if ws == nil {
		return
	}
	k := 0
	for _, w := range *ws {
		if w.group != group {
			(*ws)[k] = w
			k++
		}
	}
	*ws = (*ws)[:k]
}

func emit(event, p string) {
	ws := watches()
	if ws == nil {
		return
	}
	var e Event
	switch event {
	case "create":
		e = Create
	case "remove":
		e = Remove
	case "rename":
		e = Rename
	case "write":
		e = Write
	default:
		return
	}
	for _, w := range *ws {
		if w.mask&e == 0 {
			continue
		}
		var rel string
		switch {
		case p == w.canon:
			rel = ""
		case strings.HasPrefix(p, strings.TrimSuffix(w.canon, "/")+"/"):
			rel = p[len(strings.TrimSuffix(w.canon, "/")):]
		default:
			continue
		}
		if !w.rec && strings.Count(rel, "/") > 1 {
			continue
		}
		ei := evInfo{e: e, p: strings.TrimSuffix(w.prefix, "/") + rel}
		if e == Write && simrt.Decide("notify.drop") {
			continue
		}
		c := w.c
		deliver := func() {
			if !simrt.TrySendSO(c, EventInfo(ei)) {
				simrt.Probe("notify-channel-full")
			}
		}
		if simrt.Decide("notify.delay") {
			d := time.Duration(1+simrt.Active().WorldRand().IntN(60)) * time.Millisecond
			simrt.AtSched(d, deliver)
		} else {
			deliver()
		}
		if simrt.Decide("notify.dup") {
			simrt.AtSched(time.Duration(1+simrt.Active().WorldRand().IntN(60))*time.Millisecond, deliver)
		}
	}
}
