package simrt

import (
	"reflect"
	"runtime"
	"unsafe"
)

// Channels. A real channel value is kept as identity and type carrier; inside
// a simulation the state of every channel made by rewritten code
// (simrt.Reg(make(chan T, n))) lives in a side table of the running Sim, with
// the runtime's FIFO waiter queues and rendezvous semantics for capacity 0.
// Channels that were not made inside the simulation ("foreign": created by
// non-rewritten libraries or before the run) are polled with real non-blocking
// operations.

type chanState struct {
	cap    int
	buf    []any
	closed bool
	recvq  []*sudog
	sendq  []*sudog
	ref    any // keeps the real channel alive so its address is not reused
}

type selState struct {
	fired bool
	idx   int
	val   any
	ok    bool
}

type sudog struct {
	g     *G
	val   any
	ok    bool
	st    *selState
	case_ int
}

func chanKey[T any](ch chan T) uintptr     { return *(*uintptr)(unsafe.Pointer(&ch)) }
func chanKeyRO[T any](ch <-chan T) uintptr { return *(*uintptr)(unsafe.Pointer(&ch)) }
func chanKeySO[T any](ch chan<- T) uintptr { return *(*uintptr)(unsafe.Pointer(&ch)) }

// Reg registers a freshly made channel with the running simulation.
func Reg[T any](ch chan T) chan T {
	if s := active; s != nil && ch != nil {
		s.chans[chanKey(ch)] = &chanState{cap: cap(ch), ref: ch}
	}
	return ch
}

func (s *Sim) lookup(key uintptr) *chanState {
	if key == 0 {
		return nil
	}
	return s.chans[key]
}

func dequeue(q *[]*sudog) *sudog {
	for len(*q) > 0 {
		sg := (*q)[0]
		(*q)[0] = nil
		*q = (*q)[1:]
		if sg.st.fired || sg.g.killed {
			continue
		}
		return sg
	}
	return nil
}

func fire(sg *sudog, val any, ok bool) {
	sg.st.fired = true
	sg.st.idx = sg.case_
	sg.st.val = val
	sg.st.ok = ok
}

// trySend attempts a non-blocking send; reports success. Panics on closed.
func (st *chanState) trySend(v any) bool {
	if st.closed {
		panic(plainError("send on closed channel"))
	}
	if sg := dequeue(&st.recvq); sg != nil {
		fire(sg, v, true)
		return true
	}
	if len(st.buf) < st.cap {
		st.buf = append(st.buf, v)
		return true
	}
	return false
}

// tryRecv attempts a non-blocking receive: (value, ok, got).
func (st *chanState) tryRecv() (any, bool, bool) {
	if len(st.buf) > 0 {
		v := st.buf[0]
		st.buf[0] = nil
		st.buf = st.buf[1:]
		if sg := dequeue(&st.sendq); sg != nil {
			st.buf = append(st.buf, sg.val)
			fire(sg, nil, true)
		}
		return v, true, true
	}
	if sg := dequeue(&st.sendq); sg != nil {
		v := sg.val
		fire(sg, nil, true)
		return v, true, true
	}
	if st.closed {
		return nil, false, true
	}
	return nil, false, false
}

func (st *chanState) canSend() bool {
	if st.closed {
		return true
	}
	for _, sg := range st.recvq {
		if !sg.st.fired && !sg.g.killed {
			return true
		}
	}
	return len(st.buf) < st.cap
}

func (st *chanState) canRecv() bool {
	if len(st.buf) > 0 || st.closed {
		return true
	}
	for _, sg := range st.sendq {
		if !sg.st.fired && !sg.g.killed {
			return true
		}
	}
	return false
}

type plainError string

func (e plainError) Error() string { return string(e) }
func (e plainError) RuntimeError() {}

func removeSudog(q *[]*sudog, sg *sudog) {
	for i, x := range *q {
		if x == sg {
			copy((*q)[i:], (*q)[i+1:])
			(*q)[len(*q)-1] = nil
			*q = (*q)[:len(*q)-1]
			return
		}
	}
}

func (s *Sim) blockForever() {
	s.block(KChanRecv, 0xff, func() bool { return false })
	runtime.Goexit()
}

// pollWait parks a goroutine that polls a foreign channel: it becomes enabled
// again only after some other operation made progress (or time advanced).
func (s *Sim) pollWait() {
	g := s.cur
	g.pollStamp = s.progress
	s.block(KPoll, 0, func() bool { return s.progress != g.pollStamp })
}

// ---- send ----

func sendImpl[T any](s *Sim, key uintptr, v T, realTry func() bool) {
	if s.dead() {
		runtime.Goexit()
	}
	s.point(KChanSend, 0)
	if key == 0 {
		s.blockForever()
	}
	st := s.lookup(key)
	if st == nil { // foreign
		for !realTry() {
			s.pollWait()
		}
		s.progress++
		return
	}
	if st.trySend(v) {
		return
	}
	sg := &sudog{g: s.cur, val: v, st: &selState{}}
	st.sendq = append(st.sendq, sg)
	sel := sg.st
	for !sel.fired {
		s.block(KChanSend, 1, func() bool { return sel.fired })
	}
	if !sel.ok {
		panic(plainError("send on closed channel"))
	}
}

func Send[T any](ch chan T, v T) {
	s := active
	if s == nil {
		ch <- v
		return
	}
	sendImpl(s, chanKey(ch), v, func() bool {
		select {
		case ch <- v:
			return true
		default:
			return false
		}
	})
}

func SendSO[T any](ch chan<- T, v T) {
	s := active
	if s == nil {
		ch <- v
		return
	}
	sendImpl(s, chanKeySO(ch), v, func() bool {
		select {
		case ch <- v:
			return true
		default:
			return false
		}
	})
}

// SendTo(ch)(v): the element type is inferred from the channel only, so a value
// that is assignable to, but not identical with, the element type compiles.
func SendTo[T any](ch chan T) func(T)     { return func(v T) { Send(ch, v) } }
func SendToSO[T any](ch chan<- T) func(T) { return func(v T) { SendSO(ch, v) } }

// ---- receive ----

func recvImpl[T any](s *Sim, key uintptr, realTry func() (T, bool, bool)) (T, bool) {
	var zero T
	if s.dead() {
		runtime.Goexit()
	}
	s.point(KChanRecv, 0)
	if key == 0 {
		s.blockForever()
	}
	st := s.lookup(key)
	if st == nil { // foreign
		for {
			v, ok, got := realTry()
			if got {
				s.progress++
				return v, ok
			}
			s.pollWait()
		}
	}
	if v, ok, got := st.tryRecv(); got {
		if !ok {
			return zero, false
		}
		return unbox[T](v), true
	}
	sg := &sudog{g: s.cur, st: &selState{}}
	st.recvq = append(st.recvq, sg)
	sel := sg.st
	for !sel.fired {
		s.block(KChanRecv, 1, func() bool { return sel.fired })
	}
	if !sel.ok {
		return zero, false
	}
	return unbox[T](sel.val), true
}

func unbox[T any](v any) T {
	if v == nil {
		var zero T
		return zero
	}
	return v.(T)
}

func Recv2[T any](ch chan T) (T, bool) {
	s := active
	if s == nil {
		v, ok := <-ch
		return v, ok
	}
	return recvImpl(s, chanKey(ch), func() (T, bool, bool) {
		select {
		case v, ok := <-ch:
			return v, ok, true
		default:
			var z T
			return z, false, false
		}
	})
}

func Recv2RO[T any](ch <-chan T) (T, bool) {
	s := active
	if s == nil {
		v, ok := <-ch
		return v, ok
	}
	return recvImpl(s, chanKeyRO(ch), func() (T, bool, bool) {
		select {
		case v, ok := <-ch:
			return v, ok, true
		default:
			var z T
			return z, false, false
		}
	})
}

func Recv[T any](ch chan T) T     { v, _ := Recv2(ch); return v }
func RecvRO[T any](ch <-chan T) T { v, _ := Recv2RO(ch); return v }

// ---- close / len / cap ----

func closeImpl(s *Sim, key uintptr, realClose func()) {
	if s.dead() {
		return
	}
	s.point(KChanClose, 0)
	st := s.lookup(key)
	if st == nil {
		realClose()
		s.progress++
		return
	}
	if st.closed {
		panic(plainError("close of closed channel"))
	}
	st.closed = true
	for {
		sg := dequeue(&st.recvq)
		if sg == nil {
			break
		}
		fire(sg, nil, false)
	}
	for {
		sg := dequeue(&st.sendq)
		if sg == nil {
			break
		}
		fire(sg, nil, false)
	}
}

func Close[T any](ch chan T) {
	s := active
	if s == nil {
		close(ch)
		return
	}
	closeImpl(s, chanKey(ch), func() { close(ch) })
}

func CloseSO[T any](ch chan<- T) {
	s := active
	if s == nil {
		close(ch)
		return
	}
	closeImpl(s, chanKeySO(ch), func() { close(ch) })
}

func Len[T any](ch chan T) int {
	if s := active; s != nil {
		if st := s.lookup(chanKey(ch)); st != nil {
			return len(st.buf)
		}
	}
	return len(ch)
}
func LenRO[T any](ch <-chan T) int {
	if s := active; s != nil {
		if st := s.lookup(chanKeyRO(ch)); st != nil {
			return len(st.buf)
		}
	}
	return len(ch)
}
func LenSO[T any](ch chan<- T) int {
	if s := active; s != nil {
		if st := s.lookup(chanKeySO(ch)); st != nil {
			return len(st.buf)
		}
	}
	return len(ch)
}
func Cap[T any](ch chan T) int     { return cap(ch) }
func CapRO[T any](ch <-chan T) int { return cap(ch) }
func CapSO[T any](ch chan<- T) int { return cap(ch) }

// ---- select ----

type SelCase struct {
	send    bool
	key     uintptr
	val     any
	ch      any                      // boxed channel for passthrough (reflect)
	tryRecv func() (any, bool, bool) // foreign channels
	trySend func() bool              // foreign channels
}

type Sel struct {
	Index int
	val   any
	ok    bool
}

func CaseRecv[T any](ch chan T) SelCase {
	return SelCase{key: chanKey(ch), ch: ch, tryRecv: func() (any, bool, bool) {
		select {
		case v, ok := <-ch:
			return v, ok, true
		default:
			return nil, false, false
		}
	}}
}

func CaseRecvRO[T any](ch <-chan T) SelCase {
	return SelCase{key: chanKeyRO(ch), ch: ch, tryRecv: func() (any, bool, bool) {
		select {
		case v, ok := <-ch:
			return v, ok, true
		default:
			return nil, false, false
		}
	}}
}

func CaseSend[T any](ch chan T, v T) SelCase {
	return SelCase{send: true, key: chanKey(ch), ch: ch, val: v, trySend: func() bool {
		select {
		case ch <- v:
			return true
		default:
			return false
		}
	}}
}

func CaseSendSO[T any](ch chan<- T, v T) SelCase {
	return SelCase{send: true, key: chanKeySO(ch), ch: ch, val: v, trySend: func() bool {
		select {
		case ch <- v:
			return true
		default:
			return false
		}
	}}
}

// CaseSendTo(ch)(v) mirrors SendTo for select cases.
func CaseSendTo[T any](ch chan T) func(T) SelCase {
	return func(v T) SelCase { return CaseSend(ch, v) }
}
func CaseSendToSO[T any](ch chan<- T) func(T) SelCase {
	return func(v T) SelCase { return CaseSendSO(ch, v) }
}

func selectPassthrough(hasDefault bool, cases []SelCase) Sel {
	rc := make([]reflect.SelectCase, 0, len(cases)+1)
	for _, c := range cases {
		if c.send {
			rc = append(rc, reflect.SelectCase{Dir: reflect.SelectSend, Chan: reflect.ValueOf(c.ch), Send: sendValue(c)})
		} else {
			rc = append(rc, reflect.SelectCase{Dir: reflect.SelectRecv, Chan: reflect.ValueOf(c.ch)})
		}
	}
	if hasDefault {
		rc = append(rc, reflect.SelectCase{Dir: reflect.SelectDefault})
	}
	i, v, ok := reflect.Select(rc)
	if hasDefault && i == len(cases) {
		return Sel{Index: -1}
	}
	r := Sel{Index: i, ok: ok}
	if !cases[i].send && ok {
		r.val = v.Interface()
	}
	return r
}

func sendValue(c SelCase) reflect.Value {
	et := reflect.TypeOf(c.ch).Elem()
	if c.val == nil {
		return reflect.Zero(et)
	}
	v := reflect.ValueOf(c.val)
	if v.Type() != et {
		v = v.Convert(et)
	}
	return v
}

// Select implements the select statement: Index is the position of the chosen
// case among the non-default cases in source order, -1 for default.
func Select(hasDefault bool, cases ...SelCase) Sel {
	s := active
	if s == nil {
		return selectPassthrough(hasDefault, cases)
	}
	if s.dead() {
		runtime.Goexit()
	}
	s.point(KSelect, uint64(len(cases)))
	g := s.cur
	states := make([]*chanState, len(cases))
	foreign := false
	for i, c := range cases {
		if c.key == 0 {
			continue
		}
		states[i] = s.lookup(c.key)
		if states[i] == nil {
			foreign = true
		}
	}
	var readyIdx [16]int
	for {
		// pass 1: which cases can proceed now?
		ready := readyIdx[:0]
		for i, c := range cases {
			if c.key == 0 || states[i] == nil {
				continue
			}
			if c.send {
				if states[i].canSend() {
					ready = append(ready, i)
				}
			} else if states[i].canRecv() {
				ready = append(ready, i)
			}
		}
		if len(ready) > 0 {
			pick := ready[0]
			if s.replaying {
				if d, ok := s.script[dkey{g.id, g.ops, DSelect}]; ok {
					for _, i := range ready {
						if i == int(d.Val) {
							pick = i
							s.rec = append(s.rec, d)
						}
					}
				}
			} else if len(ready) > 1 {
				pick = ready[s.rng.IntN(len(ready))]
				if pick != ready[0] {
					s.rec = append(s.rec, Decision{G: g.id, Op: g.ops, Kind: DSelect, Val: int64(pick)})
				}
			}
			c := cases[pick]
			if c.send {
				if !states[pick].trySend(c.val) {
					panic("simrt: select send not ready")
				}
				return Sel{Index: pick}
			}
			v, ok, got := states[pick].tryRecv()
			if !got {
				panic("simrt: select recv not ready")
			}
			return Sel{Index: pick, val: v, ok: ok}
		}
		if foreign {
			for i, c := range cases {
				if c.key == 0 || states[i] != nil {
					continue
				}
				if c.send {
					if c.trySend() {
						s.progress++
						return Sel{Index: i}
					}
				} else if v, ok, got := c.tryRecv(); got {
					s.progress++
					return Sel{Index: i, val: v, ok: ok}
				}
			}
		}
		if hasDefault {
			return Sel{Index: -1}
		}
		if foreign {
			s.pollWait()
			continue
		}
		// pass 2: enqueue on every channel and park
		st := &selState{}
		sgs := make([]*sudog, len(cases))
		n := 0
		for i, c := range cases {
			if states[i] == nil {
				continue
			}
			sg := &sudog{g: g, st: st, case_: i}
			sgs[i] = sg
			n++
			if c.send {
				sg.val = c.val
				states[i].sendq = append(states[i].sendq, sg)
			} else {
				states[i].recvq = append(states[i].recvq, sg)
			}
		}
		if n == 0 {
			s.blockForever()
		}
		for !st.fired {
			s.block(KSelect, 1, func() bool { return st.fired })
		}
		for i, sg := range sgs {
			if sg == nil || i == st.idx {
				continue
			}
			if cases[i].send {
				removeSudog(&states[i].sendq, sg)
			} else {
				removeSudog(&states[i].recvq, sg)
			}
		}
		c := cases[st.idx]
		if c.send {
			if !st.ok {
				panic(plainError("send on closed channel"))
			}
			return Sel{Index: st.idx}
		}
		return Sel{Index: st.idx, val: st.val, ok: st.ok}
	}
}

// SelValue extracts the received value of the chosen case with the channel's
// element type.
func SelValue[T any](r Sel, _ chan T) (T, bool) {
	return unbox[T](r.val), r.ok
}

func SelValueRO[T any](r Sel, _ <-chan T) (T, bool) {
	return unbox[T](r.val), r.ok
}

// TrySendSO is a non-blocking send from scheduler context (sim-side packages:
// timers, notifications). It never yields. Reports whether the value was
// accepted (buffer space or a waiting receiver).
func TrySendSO[T any](ch chan<- T, v T) bool {
	s := active
	if s == nil {
		select {
		case ch <- v:
			return true
		default:
			return false
		}
	}
	if s.dead() {
		return false
	}
	st := s.lookup(chanKeySO(ch))
	if st == nil {
		select {
		case ch <- v:
			s.progress++
			return true
		default:
			return false
		}
	}
	if st.closed {
		return false
	}
	ok := st.trySend(v)
	if ok {
		s.progress++
	}
	return ok
}
