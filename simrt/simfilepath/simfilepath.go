// Package simfilepath replaces "path/filepath" where file.d walks directories:
// everything is the real package except Walk and Abs, which consult the
// simulated disk inside a simulation.
package simfilepath

import (
	"io/fs"
	"path/filepath"

	"verif/simrt/simos"
)

const (
	Separator     = filepath.Separator
	ListSeparator = filepath.ListSeparator
)

var (
	SkipDir = filepath.SkipDir
	SkipAll = filepath.SkipAll
)

type WalkFunc = filepath.WalkFunc

func Base(p string) string                         { return filepath.Base(p) }
func Clean(p string) string                        { return filepath.Clean(p) }
func Dir(p string) string                          { return filepath.Dir(p) }
func Ext(p string) string                          { return filepath.Ext(p) }
func IsAbs(p string) bool                          { return filepath.IsAbs(p) }
func Join(elem ...string) string                   { return filepath.Join(elem...) }
func Rel(base, targ string) (string, error)        { return filepath.Rel(base, targ) }
func Split(p string) (string, string)              { return filepath.Split(p) }
func SplitList(p string) []string                  { return filepath.SplitList(p) }
func VolumeName(p string) string                   { return filepath.VolumeName(p) }
func Match(pat, name string) (bool, error)         { return filepath.Match(pat, name) }
func FromSlash(p string) string                    { return filepath.FromSlash(p) }
func ToSlash(p string) string                      { return filepath.ToSlash(p) }
func EvalSymlinks(p string) (string, error)        { return filepath.EvalSymlinks(p) }
func WalkDir(root string, fn fs.WalkDirFunc) error { return filepath.WalkDir(root, fn) }

func Abs(p string) (string, error) {
	if simos.Cur() == nil {
		return filepath.Abs(p)
	}
	if filepath.IsAbs(p) {
		return filepath.Clean(p), nil
	}
	wd, _ := simos.Getwd()
	return filepath.Join(wd, p), nil
}

func Walk(root string, fn WalkFunc) error {
	if simos.Cur() == nil {
		return filepath.Walk(root, fn)
	}
	return simos.WalkTree(root, func(p string, fi simos.FileInfo, err error) error { return fn(p, fi, err) })
}

// Glob inside a simulation supports what file.d uses: meta characters in the
// last path element only; the directory part is read from the simulated disk.
func Glob(pattern string) ([]string, error) {
	if simos.Cur() == nil {
		return filepath.Glob(pattern)
	}
	dir, file := filepath.Split(pattern)
	if _, err := filepath.Match(file, ""); err != nil {
		return nil, err
	}
	cleanDir := filepath.Clean(dir)
	if dir == "" {
		cleanDir = "."
	}
	ents, err := simos.ReadDir(cleanDir)
	if err != nil {
		return nil, nil // like the real Glob: I/O errors are ignored
	}
	var out []string
	for _, e := range ents {
		if ok, _ := filepath.Match(file, e.Name()); ok {
			out = append(out, filepath.Join(cleanDir, e.Name()))
		}
	}
	return out, nil
}
