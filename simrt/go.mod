module verif/simrt

go 1.25

toolchain go1.25.5

require github.com/rjeczalik/notify v0.9.3

require golang.org/x/sys v0.41.0

require github.com/twmb/franz-go v1.20.7

require (
	github.com/andybalholm/brotli v1.0.5 // indirect
	github.com/klauspost/compress v1.18.4 // indirect
	github.com/pierrec/lz4/v4 v4.1.25 // indirect
	github.com/twmb/franz-go/pkg/kmsg v1.12.0 // indirect
	github.com/valyala/bytebufferpool v1.0.0 // indirect
)

require github.com/valyala/fasthttp v1.48.0
