module verif/simrt

go 1.25

toolchain go1.25.5

require github.com/rjeczalik/notify v0.9.3
require golang.org/x/sys v0.41.0
