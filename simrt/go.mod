module verif/simrt

go 1.25

toolchain go1.25.5
