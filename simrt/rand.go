package simrt

import (
	mrand "math/rand"
)

// math/rand package-level functions, served from the run's world PRNG stream
// (separate from scheduling decisions).

func RandInt() int {
	if s := active; s != nil {
		return int(s.wrng.Int64())
	}
	return mrand.Int()
}
func RandIntn(n int) int {
	if s := active; s != nil {
		return s.wrng.IntN(n)
	}
	return mrand.Intn(n)
}
func RandInt63() int64 {
	if s := active; s != nil {
		return s.wrng.Int64()
	}
	return mrand.Int63()
}
func RandInt63n(n int64) int64 {
	if s := active; s != nil {
		return s.wrng.Int64N(n)
	}
	return mrand.Int63n(n)
}
func RandInt31() int32 {
	if s := active; s != nil {
		return s.wrng.Int32()
	}
	return mrand.Int31()
}
func RandInt31n(n int32) int32 {
	if s := active; s != nil {
		return s.wrng.Int32N(n)
	}
	return mrand.Int31n(n)
}
func RandUint32() uint32 {
	if s := active; s != nil {
		return s.wrng.Uint32()
	}
	return mrand.Uint32()
}
func RandUint64() uint64 {
	if s := active; s != nil {
		return s.wrng.Uint64()
	}
	return mrand.Uint64()
}
func RandFloat64() float64 {
	if s := active; s != nil {
		return s.wrng.Float64()
	}
	return mrand.Float64()
}
func RandFloat32() float32 {
	if s := active; s != nil {
		return s.wrng.Float32()
	}
	return mrand.Float32()
}
func RandPerm(n int) []int {
	if s := active; s != nil {
		return s.wrng.Perm(n)
	}
	return mrand.Perm(n)
}
func RandShuffle(n int, swap func(i, j int)) {
	if s := active; s != nil {
		s.wrng.Shuffle(n, swap)
		return
	}
	mrand.Shuffle(n, swap)
}
func RandSeed(int64) {}

// RandNewSource replaces rand.NewSource(seed): inside a simulation the seed
// (usually the wall clock) is replaced by a draw from the world stream.
func RandNewSource(seed int64) mrand.Source {
	if s := active; s != nil {
		return mrand.NewSource(s.wrng.Int64())
	}
	return mrand.NewSource(seed)
}
