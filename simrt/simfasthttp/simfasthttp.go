// Package simfasthttp replaces github.com/valyala/fasthttp in file.d's xhttp
// client: everything is the real package except Client, whose DoTimeout is
// answered by a simulated endpoint that the harness installs in the running
// simulation (method, headers and gunzipped body in; status and body out,
// after a seeded latency on simulated time).
package simfasthttp

import (
	"bytes"
	"compress/gzip"
	"crypto/tls"
	"errors"
	"io"
	"time"

	"github.com/valyala/fasthttp"
	"verif/simrt"
)

type (
	URI      = fasthttp.URI
	Request  = fasthttp.Request
	Response = fasthttp.Response
)

const (
	MethodPost                 = fasthttp.MethodPost
	MethodGet                  = fasthttp.MethodGet
	HeaderAuthorization        = fasthttp.HeaderAuthorization
	CompressDefaultCompression = fasthttp.CompressDefaultCompression
	CompressNoCompression      = fasthttp.CompressNoCompression
	CompressBestSpeed          = fasthttp.CompressBestSpeed
	CompressBestCompression    = fasthttp.CompressBestCompression
	CompressHuffmanOnly        = fasthttp.CompressHuffmanOnly
)

var ErrTimeout = fasthttp.ErrTimeout

func AcquireRequest() *Request    { return fasthttp.AcquireRequest() }
func ReleaseRequest(r *Request)   { fasthttp.ReleaseRequest(r) }
func AcquireResponse() *Response  { return fasthttp.AcquireResponse() }
func ReleaseResponse(r *Response) { fasthttp.ReleaseResponse(r) }
func WriteGzipLevel(w io.Writer, p []byte, level int) (int, error) {
	return fasthttp.WriteGzipLevel(w, p, level)
}

// Call is what the simulated endpoint sees.
type Call struct {
	Method      string
	URI         string
	ContentType string
	Headers     map[string]string
	Body        []byte // decompressed
	Gzipped     bool
}

// Reply of the simulated endpoint.
type Reply struct {
	Status  int
	Body    []byte
	Err     error         // transport error
	Latency time.Duration // simulated
	Hang    bool          // no answer until the client time-out
}

// Endpoint answers requests; installed by the harness with Install.
type Endpoint func(c *Call) Reply

const key = "simfasthttp.endpoint"

func Install(e Endpoint) { simrt.Active().Locals[key] = e }

type Client struct {
	ReadTimeout         time.Duration
	WriteTimeout        time.Duration
	MaxConnDuration     time.Duration
	MaxIdleConnDuration time.Duration
	TLSConfig           *tls.Config

	real *fasthttp.Client
}

func (c *Client) DoTimeout(req *Request, resp *Response, timeout time.Duration) error {
	s := simrt.Active()
	if s == nil {
		if c.real == nil {
			c.real = &fasthttp.Client{ReadTimeout: c.ReadTimeout, WriteTimeout: c.WriteTimeout, MaxConnDuration: c.MaxConnDuration, MaxIdleConnDuration: c.MaxIdleConnDuration, TLSConfig: c.TLSConfig}
		}
		return c.real.DoTimeout(req, resp, timeout)
	}
	if simrt.Dead() {
		return errors.New("simfasthttp: process is gone")
	}
	ep, _ := s.Locals[key].(Endpoint)
	if ep == nil {
		return errors.New("simfasthttp: no simulated endpoint installed")
	}
	simrt.IOPoint()
	call := &Call{Method: string(req.Header.Method()), URI: req.URI().String(), ContentType: string(req.Header.ContentType()), Headers: map[string]string{}}
	req.Header.VisitAll(func(k, v []byte) { call.Headers[string(k)] = string(v) })
	body := req.Body()
	if string(req.Header.ContentEncoding()) == "gzip" {
		zr, err := gzip.NewReader(bytes.NewReader(body))
		if err == nil {
			if b, err := io.ReadAll(zr); err == nil {
				body = b
				call.Gzipped = true
			}
		}
	}
	call.Body = append([]byte(nil), body...)
	rep := ep(call)
	if rep.Hang {
		simrt.Sleep(timeout)
		return fasthttp.ErrTimeout
	}
	if rep.Latency > 0 {
		if timeout > 0 && rep.Latency >= timeout {
			simrt.Sleep(timeout)
			return fasthttp.ErrTimeout
		}
		simrt.Sleep(rep.Latency)
	}
	if rep.Err != nil {
		return rep.Err
	}
	resp.SetStatusCode(rep.Status)
	resp.SetBodyRaw(append([]byte(nil), rep.Body...))
	return nil
}
