// Package simrt is the deterministic simulation runtime that the rewritten
// ("simulation build") copy of file.d runs on.  Real goroutines execute the
// real code, but exactly one of them holds the run token at any instant; at
// every intercepted operation the scheduler decides - from one seeded PRNG or
// from a replay script - who runs next, whether simulated time advances and
// whether a fault fires.
//
// Outside a running simulation (package init, fidelity self-test) every
// primitive delegates to the real sync/time/channel operation ("passthrough").
package simrt

import (
	"container/heap"
	"fmt"
	"math/rand/v2"
	"runtime"
	"sort"
	"strings"
	"sync"
	"sync/atomic"
	"time"
)

type gstate uint8

const (
	stRunnable gstate = iota
	stRunning
	stBlocked
	stDead
)

// Operation kinds (trace hash + per-kind pre-emption boost).
const (
	KSpawn = iota + 1
	KYield
	KAtomic
	KSleep
	KMutexLock
	KMutexBlock
	KMutexUnlock
	KRLock
	KRUnlock
	KCondWait
	KCondPark
	KCondSignal
	KCondBroadcast
	KWGWait
	KChanSend
	KChanRecv
	KChanClose
	KSelect
	KPoll
	KOnce
	KIO
	KUser
	KExit
	nKinds
)

// Decision kinds.
const (
	DPreempt = 1 // value = goroutine id that runs instead
	DPick    = 2 // value = goroutine id picked when the running one blocked (default lowest id)
	DSelect  = 3 // value = case index chosen (default first ready in source order)
	DFault   = 4 // value = 1 fired / or an integer choice
	DStall   = 5 // value = nanoseconds the clock jumps
)

// Decision is one non-default choice made during a run. It is addressed by the
// deciding goroutine and that goroutine's own operation counter, so deleting a
// decision during minimisation does not shift the addresses of the others.
type Decision struct {
	G    int    `json:"g"`
	Op   int    `json:"op"`
	Kind int    `json:"k"`
	Val  int64  `json:"v"`
	Name string `json:"n,omitempty"`
}

type dkey struct {
	g, op, kind int
}

// G is a simulated goroutine.
type G struct {
	id     int
	site   string
	group  int
	wake   chan struct{}
	exited chan struct{}
	state  gstate
	ready  func() bool
	ops    int
	killed bool
	// polling support for foreign channels
	pollStamp uint64
	prio      int // PCT priority
}

func (g *G) ID() int      { return g.id }
func (g *G) Site() string { return g.site }

type timer struct {
	at  time.Duration
	seq uint64
	fn  func() // runs in scheduler context: must not yield
	off bool
	idx int
	grp int
}

type timerHeap []*timer

func (h timerHeap) Len() int { return len(h) }
func (h timerHeap) Less(i, j int) bool {
	return h[i].at < h[j].at || (h[i].at == h[j].at && h[i].seq < h[j].seq)
}
func (h timerHeap) Swap(i, j int)       { h[i], h[j] = h[j], h[i]; h[i].idx = i; h[j].idx = j }
func (h *timerHeap) Push(x interface{}) { t := x.(*timer); t.idx = len(*h); *h = append(*h, t) }
func (h *timerHeap) Pop() interface{} {
	old := *h
	n := len(old)
	x := old[n-1]
	old[n-1] = nil
	*h = old[:n-1]
	x.idx = -1
	return x
}

// Config holds the per-run scheduler parameters.
type Config struct {
	Seed      uint64             `json:"seed"`
	PSwitch   float64            `json:"pswitch"`             // pre-emption probability per operation
	Boost     map[string]float64 `json:"boost,omitempty"`     // per-kind multiplier, keys: "cond","chan","atomic","mutex"
	StepCost  time.Duration      `json:"step_cost"`           // simulated time per operation
	MaxSteps  int                `json:"max_steps"`           // step budget
	Horizon   time.Duration      `json:"horizon"`             // simulated-time horizon
	Faults    map[string]float64 `json:"faults,omitempty"`    // fault kind -> probability per fault site visit
	QuietAt   time.Duration      `json:"quiet_at"`            // no faults/stalls injected after this simulated time (0 = never quiet)
	PCT       int                `json:"pct,omitempty"`       // >0: PCT strategy with that many priority change points
	PCTLen    int                `json:"pct_len,omitempty"`   // estimated run length in steps for PCT change points
	Procs     int                `json:"procs,omitempty"`     // value returned by GOMAXPROCS()
	StallMax  time.Duration      `json:"stall_max,omitempty"` // upper bound of one injected stall
	PoolMiss  float64            `json:"pool_miss,omitempty"` // buggify: sync.Pool.Get misses with this probability
	TraceOn   bool               `json:"-"`
	KeepTrace int                `json:"-"`
}

// Sim is one simulated execution.
type Sim struct {
	cfg      Config
	ep       uint32
	rng      *rand.Rand // scheduling + fault decisions
	wrng     *rand.Rand // world randomness (latencies, math/rand replacement)
	gs       []*G
	cur      *G
	now      time.Duration
	tseq     uint64
	timers   timerHeap
	steps    int
	hash     uint64
	aborting bool
	unwind   bool
	done     chan string
	reason   string
	died     string
	psw      [nKinds]float64
	pstall   float64
	progress uint64
	noFaults bool

	chans map[uintptr]*chanState

	replaying bool
	script    map[dkey]Decision
	rec       []Decision

	faultFired map[string]int
	faultSeen  map[string]int
	probes     map[string]int

	pctChange map[int]bool
	nextGroup int

	trace []string
	// Locals lets harness code attach per-run values.
	Locals map[string]any
	onIdle func()
}

var (
	active   *Sim
	epochCtr uint32
	// Epoch is the simulated wall clock at simulated time zero.
	Epoch = time.Date(2024, 1, 1, 0, 0, 0, 0, time.UTC)
)

// Active returns the running simulation or nil.
func Active() *Sim { return active }

// InSim reports whether a simulation is running.
func InSim() bool { return active != nil }

func New(cfg Config) *Sim {
	if cfg.MaxSteps == 0 {
		cfg.MaxSteps = 2_000_000
	}
	if cfg.Horizon == 0 {
		cfg.Horizon = time.Hour
	}
	if cfg.Procs == 0 {
		cfg.Procs = 1
	}
	if cfg.StallMax == 0 {
		cfg.StallMax = 10 * time.Second
	}
	epochCtr++
	s := &Sim{
		cfg:        cfg,
		ep:         epochCtr,
		rng:        rand.New(rand.NewPCG(cfg.Seed, 0x9e3779b97f4a7c15)),
		wrng:       rand.New(rand.NewPCG(cfg.Seed^0xabcdef12345, 0x7f4a7c159e3779b9)),
		done:       make(chan string, 1),
		chans:      map[uintptr]*chanState{},
		faultFired: map[string]int{},
		faultSeen:  map[string]int{},
		probes:     map[string]int{},
		Locals:     map[string]any{},
	}
	for k := range s.psw {
		s.psw[k] = cfg.PSwitch
	}
	boost := func(name string, kinds ...int) {
		if f, ok := cfg.Boost[name]; ok {
			for _, k := range kinds {
				s.psw[k] = min(0.95, cfg.PSwitch*f)
			}
		}
	}
	boost("cond", KCondWait, KCondPark, KCondSignal, KCondBroadcast)
	boost("chan", KChanSend, KChanRecv, KChanClose, KSelect)
	boost("atomic", KAtomic, KYield)
	boost("mutex", KMutexLock, KMutexUnlock, KRLock, KRUnlock)
	boost("io", KIO)
	s.pstall = cfg.Faults["time.stall"]
	if cfg.PCT > 0 {
		n := cfg.PCTLen
		if n <= 0 {
			n = 5000
		}
		s.pctChange = map[int]bool{}
		for i := 0; i < cfg.PCT; i++ {
			s.pctChange[1+s.rng.IntN(n)] = true
		}
	}
	return s
}

// SetScript puts the simulation in replay mode: decisions come from the
// script; where it is silent the default policy applies (no pre-emption,
// lowest id when blocking, first ready select case, no fault).
func (s *Sim) SetScript(ds []Decision) {
	s.replaying = true
	s.script = make(map[dkey]Decision, len(ds))
	for _, d := range ds {
		s.script[dkey{d.G, d.Op, d.Kind}] = d
	}
}

func (s *Sim) Now() time.Duration         { return s.now }
func (s *Sim) Hash() uint64               { return s.hash }
func (s *Sim) Steps() int                 { return s.steps }
func (s *Sim) Died() string               { return s.died }
func (s *Sim) Decisions() []Decision      { return s.rec }
func (s *Sim) WorldRand() *rand.Rand      { return s.wrng }
func (s *Sim) Faults() map[string]int     { return s.faultFired }
func (s *Sim) FaultSites() map[string]int { return s.faultSeen }
func (s *Sim) Probes() map[string]int     { return s.probes }
func (s *Sim) Cfg() Config                { return s.cfg }
func (s *Sim) Goroutines() int            { return len(s.gs) }
func (s *Sim) Trace() []string            { return s.trace }

// Probe counts a "rare condition reached" marker.
func Probe(name string) {
	if s := active; s != nil {
		s.probes[name]++
	}
}

// Run executes root as goroutine 0 and returns the end reason: a verdict given
// to Stop, "died", "steps", "horizon" or "quiescent".
func (s *Sim) Run(root func()) string {
	if active != nil {
		panic("simrt: nested simulation")
	}
	active = s
	wallSim.Store(s)
	wallProgress.Add(1)
	g := s.newG("root", 0)
	s.start(g, root)
	s.cur = g
	g.state = stRunning
	g.wake <- struct{}{}
	reason := <-s.done
	s.reason = reason
	// Unwind every goroutine, one at a time, so that deferred code never runs
	// in parallel.
	s.aborting = true
	for i := 0; i < len(s.gs); i++ {
		x := s.gs[i]
		if x.exited == nil {
			continue
		}
		select {
		case <-x.exited:
			continue
		default:
		}
		select {
		case x.wake <- struct{}{}:
		default:
		}
		<-x.exited
	}
	active = nil
	wallSim.Store(nil)
	return reason
}

// Wall-clock watch (used by the worker binary to recognise a goroutine of the
// system under test that spins without ever reaching a scheduling point: the
// simulation cannot pre-empt it). Read from a real goroutine outside the simulation.
var (
	wallProgress atomic.Int64
	wallSim      atomic.Pointer[Sim]
)

// SetOnIdle registers a callback that runs whenever no goroutine can run and the
// clock is about to jump to the next timer (or the run is about to end as quiescent).
func (s *Sim) SetOnIdle(f func()) { s.onIdle = f }

// WallProgress returns a counter that grows with every scheduling step of any
// simulation of this process, and the simulation that is running now (nil if none).
func WallProgress() (int64, *Sim) { return wallProgress.Load(), wallSim.Load() }

func (s *Sim) newG(site string, group int) *G {
	g := &G{id: len(s.gs), site: site, group: group, wake: make(chan struct{}, 1), exited: make(chan struct{})}
	if s.cfg.PCT > 0 {
		g.prio = 1000 + s.rng.IntN(1_000_000)
	}
	s.gs = append(s.gs, g)
	return g
}

func (s *Sim) start(g *G, fn func()) {
	go func() {
		defer close(g.exited)
		<-g.wake
		if s.aborting || g.killed {
			return
		}
		normal := false
		defer func() {
			if !normal && !s.aborting && !g.killed && !s.unwind && s.cur == g && g.state == stRunning {
				// the running goroutine is leaving without handing the token over
				// (runtime.Goexit, e.g. testing.FailNow): report instead of hanging
				if r := recover(); r != nil {
					buf := make([]byte, 8192)
					n := runtime.Stack(buf, false)
					s.died = fmt.Sprintf("g%d(%s) panic: %v\n%s", g.id, g.site, r, trimStack(string(buf[:n])))
				} else {
					s.died = fmt.Sprintf("g%d(%s) left through runtime.Goexit while running", g.id, g.site)
				}
				g.state = stDead
				s.finish("died")
			}
		}()
		defer func() {
			if r := recover(); r != nil {
				if s.aborting || g.killed || s.unwind {
					return
				}
				buf := make([]byte, 8192)
				n := runtime.Stack(buf, false)
				s.died = fmt.Sprintf("g%d(%s) panic: %v\n%s", g.id, g.site, r, trimStack(string(buf[:n])))
				g.state = stDead
				s.finish("died")
				return
			}
		}()
		fn()
		normal = true
		if s.aborting || g.killed || s.unwind {
			return
		}
		g.state = stDead
		s.mix(uint64(g.id), KExit)
		s.dispatch(g, true)
	}()
}

func trimStack(st string) string {
	lines := strings.Split(st, "\n")
	// drop the frames of the recover handler itself: start after the "panic(" frame
	from := 0
	for i, l := range lines {
		if strings.HasPrefix(l, "panic(") {
			from = i + 2
			break
		}
	}
	var out []string
	for _, l := range lines[from:] {
		if strings.Contains(l, "simrt.(*Sim).start") {
			break
		}
		out = append(out, l)
	}
	if len(out) > 40 {
		out = out[:40]
	}
	return strings.Join(out, "\n")
}

func (s *Sim) finish(reason string) {
	select {
	case s.done <- reason:
	default:
	}
}

func (s *Sim) mix(a, b uint64) {
	h := (s.hash ^ (a*0x100000001b3 + b + 0x632be59bd9b4e019)) * 0x9E3779B97F4A7C15
	s.hash = h ^ (h >> 29)
}

// dead reports whether the calling context must not touch simulation state any
// more (run is ending, or the goroutine was killed and is unwinding).
func (s *Sim) dead() bool { return s.aborting || s.unwind }

// Dead is for sim-side packages (simos...): true while deferred code of an
// ended run or of a killed goroutine is unwinding; operations must be no-ops.
func Dead() bool {
	s := active
	return s != nil && (s.aborting || s.unwind)
}

func (s *Sim) exitIfDead() {
	if s.aborting || s.unwind {
		runtime.Goexit()
	}
}

// Go spawns a simulated goroutine (a real one outside a simulation).
func Go(site string, fn func()) {
	s := active
	if s == nil {
		go fn()
		return
	}
	if s.dead() {
		return
	}
	g := s.newG(site, s.cur.group)
	g.state = stRunnable
	s.start(g, fn)
	s.point(KSpawn, uint64(g.id))
}

// GoGroup spawns fn as the first goroutine of a new kill group and returns the
// group id. Goroutines spawned by members of a group belong to it.
func GoGroup(site string, fn func()) int {
	s := active
	s.nextGroup++
	grp := s.nextGroup
	g := s.newG(site, grp)
	g.state = stRunnable
	s.start(g, fn)
	s.point(KSpawn, uint64(g.id))
	return grp
}

// KillGroup simulates the death of a process: every goroutine of the group
// vanishes at this instant. Deferred functions of the killed goroutines run
// with every simulation operation turned into a no-op, so they cannot change
// the simulated world after the crash instant.
func KillGroup(grp int) int {
	s := active
	if s == nil || s.dead() {
		return 0
	}
	if s.cur.group == grp {
		panic("simrt: KillGroup from inside the group")
	}
	n := 0
	s.unwind = true
	for i := 0; i < len(s.gs); i++ {
		x := s.gs[i]
		if x.group != grp || x.state == stDead {
			continue
		}
		x.killed = true
		x.state = stDead
		n++
		select {
		case x.wake <- struct{}{}:
		default:
		}
		<-x.exited
	}
	s.unwind = false
	for _, t := range s.timers {
		if t.grp == grp {
			t.off = true
		}
	}
	s.progress++
	s.mix(uint64(grp), 0xdeadbeef)
	return n
}

// Group returns the kill group of the running goroutine.
func Group() int {
	if s := active; s != nil && s.cur != nil {
		return s.cur.group
	}
	return 0
}

// CurG returns the id of the running goroutine (-1 outside a simulation).
func CurG() int {
	if s := active; s != nil && s.cur != nil {
		return s.cur.id
	}
	return -1
}

func (s *Sim) enabledInto(en []*G) []*G {
	for _, g := range s.gs {
		switch g.state {
		case stRunnable:
			en = append(en, g)
		case stBlocked:
			if g.ready() {
				en = append(en, g)
			}
		}
	}
	return en
}

var enScratch [2][]*G

func (s *Sim) fireDue() {
	for len(s.timers) > 0 && s.timers[0].at <= s.now {
		x := heap.Pop(&s.timers).(*timer)
		if !x.off {
			x.fn()
			s.progress++
		}
	}
}

func (s *Sim) tracef(format string, args ...any) {
	if s.cfg.TraceOn {
		if s.cfg.KeepTrace > 0 && len(s.trace) >= s.cfg.KeepTrace {
			s.trace = s.trace[1:]
		}
		s.trace = append(s.trace, fmt.Sprintf("%8d t=%-12v ", s.steps, s.now)+fmt.Sprintf(format, args...))
	}
}

// point is a scheduling point for the running goroutine, which stays runnable.
func (s *Sim) point(kind int, obj uint64) {
	if s.aborting || s.unwind {
		runtime.Goexit()
	}
	g := s.cur
	g.ops++
	s.steps++
	wallProgress.Add(1)
	if kind != KPoll {
		s.progress++
	}
	s.now += s.cfg.StepCost
	s.mix(uint64(g.id)<<8|uint64(kind), obj)
	if s.cfg.TraceOn {
		s.tracef("g%d(%s) op%d kind=%d obj=%d", g.id, g.site, g.ops, kind, obj)
	}
	if len(s.timers) > 0 && s.timers[0].at <= s.now {
		s.fireDue()
	}
	if s.steps > s.cfg.MaxSteps {
		s.finish("steps")
		s.park(g)
	}
	if s.replaying {
		if len(s.script) == 0 {
			return
		}
		if d, ok := s.script[dkey{g.id, g.ops, DStall}]; ok {
			s.stall(time.Duration(d.Val))
			s.rec = append(s.rec, d)
		}
		if d, ok := s.script[dkey{g.id, g.ops, DPreempt}]; ok {
			t := int(d.Val)
			if t >= 0 && t < len(s.gs) && t != g.id {
				x := s.gs[t]
				if x.state == stRunnable || (x.state == stBlocked && x.ready()) {
					s.rec = append(s.rec, d)
					g.state = stRunnable
					s.switchTo(g, x)
				}
			}
		}
		return
	}
	if s.pctChange != nil {
		s.pctPoint(g)
		return
	}
	u := s.rng.Float64()
	if u < s.pstall {
		if s.cfg.QuietAt == 0 || s.now < s.cfg.QuietAt {
			d := s.stallAmount()
			s.rec = append(s.rec, Decision{G: g.id, Op: g.ops, Kind: DStall, Val: int64(d), Name: "time.stall"})
			s.faultFired["time.stall"]++
			s.stall(d)
		}
		return
	}
	if u-s.pstall < s.psw[kind] {
		en := s.enabledInto(enScratch[0][:0])
		enScratch[0] = en[:0]
		// exclude self
		k := 0
		for _, x := range en {
			if x != g {
				en[k] = x
				k++
			}
		}
		en = en[:k]
		if len(en) == 0 {
			return
		}
		next := en[s.rng.IntN(len(en))]
		s.rec = append(s.rec, Decision{G: g.id, Op: g.ops, Kind: DPreempt, Val: int64(next.id)})
		g.state = stRunnable
		s.switchTo(g, next)
	}
}

func (s *Sim) stallAmount() time.Duration {
	// log-uniform between 1ms and StallMax
	lo, hi := float64(time.Millisecond), float64(s.cfg.StallMax)
	if hi <= lo {
		return time.Duration(hi)
	}
	f := s.rng.Float64()
	v := lo
	for r := hi / lo; r > 1; r /= 2 {
		if f < 0.5 {
			break
		}
		f = (f - 0.5) * 2
		v *= 2
	}
	if v > hi {
		v = hi
	}
	return time.Duration(v)
}

func (s *Sim) stall(d time.Duration) {
	s.now += d
	s.fireDue()
}

// pctPoint implements the PCT strategy: always run the highest-priority
// enabled goroutine; at the chosen change points lower the running one.
func (s *Sim) pctPoint(g *G) {
	if s.pctChange[s.steps] {
		g.prio = s.cfg.PCT - len(s.pctChange) // below all initial priorities
		delete(s.pctChange, s.steps)
	}
	en := s.enabledInto(enScratch[0][:0])
	enScratch[0] = en[:0]
	best := g
	for _, x := range en {
		if x.prio > best.prio {
			best = x
		}
	}
	if best != g {
		s.rec = append(s.rec, Decision{G: g.id, Op: g.ops, Kind: DPreempt, Val: int64(best.id)})
		g.state = stRunnable
		s.switchTo(g, best)
	}
}

func (s *Sim) switchTo(g, next *G) {
	next.state = stRunning
	s.cur = next
	next.wake <- struct{}{}
	s.park(g)
}

func (s *Sim) park(g *G) {
	<-g.wake
	if s.aborting || g.killed {
		runtime.Goexit()
	}
}

// block parks the running goroutine until ready() holds.
func (s *Sim) block(kind int, obj uint64, ready func() bool) {
	if s.aborting || s.unwind {
		runtime.Goexit()
	}
	g := s.cur
	g.ops++
	s.steps++
	wallProgress.Add(1)
	if kind != KPoll {
		s.progress++
	}
	s.mix(uint64(g.id)<<8|uint64(kind)|0x80, obj)
	if s.cfg.TraceOn {
		s.tracef("g%d(%s) op%d BLOCK kind=%d", g.id, g.site, g.ops, kind)
	}
	if s.steps > s.cfg.MaxSteps {
		s.finish("steps")
		s.park(g)
	}
	g.state = stBlocked
	g.ready = ready
	s.dispatch(g, false)
	g.ready = nil
}

// dispatch picks the next goroutine after g blocked or exited.
func (s *Sim) dispatch(g *G, exiting bool) {
	for {
		en := s.enabledInto(enScratch[1][:0])
		enScratch[1] = en[:0]
		if len(en) == 0 {
			if !s.advance() {
				if !exiting {
					s.park(g)
				}
				return
			}
			continue
		}
		var next *G
		switch {
		case s.replaying:
			next = en[0]
			if d, ok := s.script[dkey{g.id, g.ops, DPick}]; ok {
				for _, x := range en {
					if x.id == int(d.Val) {
						next = x
						s.rec = append(s.rec, d)
						break
					}
				}
			}
		case s.pctChange != nil:
			next = en[0]
			for _, x := range en {
				if x.prio > next.prio {
					next = x
				}
			}
			if next != en[0] {
				s.rec = append(s.rec, Decision{G: g.id, Op: g.ops, Kind: DPick, Val: int64(next.id)})
			}
		default:
			next = en[s.rng.IntN(len(en))]
			if next != en[0] {
				s.rec = append(s.rec, Decision{G: g.id, Op: g.ops, Kind: DPick, Val: int64(next.id)})
			}
		}
		next.state = stRunning
		s.cur = next
		if next == g {
			return
		}
		next.wake <- struct{}{}
		if !exiting {
			s.park(g)
		}
		return
	}
}

// advance moves the clock to the next timer and fires everything due.
func (s *Sim) advance() bool {
	for len(s.timers) > 0 && s.timers[0].off {
		heap.Pop(&s.timers)
	}
	if s.onIdle != nil && !s.aborting && s.reason == "" {
		// nothing can run: every goroutine is blocked or asleep. Harness invariants about
		// "asleep although there is work" are evaluated here (read-only, no simulation operations).
		s.onIdle()
	}
	if len(s.timers) == 0 {
		s.finish("quiescent")
		return false
	}
	t := s.timers[0]
	if t.at > s.cfg.Horizon {
		s.finish("horizon")
		return false
	}
	if t.at > s.now {
		s.now = t.at
	}
	s.fireDue()
	return true
}

func (s *Sim) addTimer(d time.Duration, fn func()) *timer {
	if d < 0 {
		d = 0
	}
	s.tseq++
	t := &timer{at: s.now + d, seq: s.tseq, fn: fn}
	if s.cur != nil {
		t.grp = s.cur.group
	}
	heap.Push(&s.timers, t)
	return t
}

func (s *Sim) delTimer(t *timer) {
	t.off = true
	if t.idx >= 0 && t.idx < len(s.timers) && s.timers[t.idx] == t {
		heap.Remove(&s.timers, t.idx)
	}
}

// Yield replaces runtime.Gosched.
func Yield() {
	if s := active; s != nil {
		if s.dead() {
			return
		}
		s.point(KYield, 0)
	} else {
		runtime.Gosched()
	}
}

// Point is a plain scheduling point (used by sim-side code and harnesses).
func Point() {
	if s := active; s != nil && !s.dead() {
		s.point(KUser, 0)
	}
}

// IOPoint is a scheduling point of kind I/O (simulated disk/network calls).
func IOPoint() {
	if s := active; s != nil && !s.dead() {
		s.point(KIO, 0)
	}
}

// P is inserted by simgen in front of every atomic operation: x.Load() becomes
// simrt.P(&x).Load(), so that lock-free code gets interleavings at atomic
// granularity.
func P[T any](p *T) *T {
	if s := active; s != nil && !s.dead() {
		s.point(KAtomic, 0)
	}
	return p
}

// Stop ends the run from inside with the given reason (verdict reached).
func Stop(reason string) {
	s := active
	s.finish(reason)
	s.park(s.cur)
}

// WaitUntil blocks the calling goroutine until cond() holds (harness helper;
// cond is evaluated in scheduler context and must not yield).
func WaitUntil(cond func() bool) {
	s := active
	if s.dead() {
		runtime.Goexit()
	}
	s.point(KUser, 1)
	for !cond() {
		s.block(KUser, 2, cond)
	}
}

// GOMAXPROCS replaces runtime.GOMAXPROCS(0).
func GOMAXPROCS() int {
	if s := active; s != nil {
		return s.cfg.Procs
	}
	return runtime.GOMAXPROCS(0)
}

// Decide is a fault site: it reports whether fault kind `name` fires now.
func Decide(name string) bool {
	s := active
	if s == nil || s.dead() {
		return false
	}
	g := s.cur
	g.ops++
	if s.noFaults {
		return false
	}
	if s.replaying {
		if d, ok := s.script[dkey{g.id, g.ops, DFault}]; ok && d.Name == name && d.Val != 0 {
			s.rec = append(s.rec, d)
			s.faultFired[name]++
			s.mix(uint64(g.id)<<8|0xfa, uint64(len(name)))
			return true
		}
		return false
	}
	p := s.cfg.Faults[name]
	if p <= 0 {
		return false
	}
	s.faultSeen[name]++
	if s.cfg.QuietAt != 0 && s.now >= s.cfg.QuietAt {
		return false
	}
	if s.rng.Float64() < p {
		s.rec = append(s.rec, Decision{G: g.id, Op: g.ops, Kind: DFault, Val: 1, Name: name})
		s.faultFired[name]++
		s.mix(uint64(g.id)<<8|0xfa, uint64(len(name)))
		return true
	}
	return false
}

// DecideN is a fault site with an integer outcome in [0,n); 0 is the default
// (no fault). It fires with the probability configured for `name`.
func DecideN(name string, n int) int {
	s := active
	if s == nil || s.dead() || n <= 1 {
		return 0
	}
	g := s.cur
	g.ops++
	if s.noFaults {
		return 0
	}
	if s.replaying {
		if d, ok := s.script[dkey{g.id, g.ops, DFault}]; ok && d.Name == name {
			v := int(d.Val)
			if v >= n {
				v = n - 1
			}
			if v > 0 {
				s.rec = append(s.rec, Decision{G: g.id, Op: g.ops, Kind: DFault, Val: int64(v), Name: name})
				s.faultFired[name]++
			}
			return v
		}
		return 0
	}
	p := s.cfg.Faults[name]
	if p <= 0 {
		return 0
	}
	s.faultSeen[name]++
	if s.cfg.QuietAt != 0 && s.now >= s.cfg.QuietAt {
		return 0
	}
	if s.rng.Float64() < p {
		v := 1 + s.rng.IntN(n-1)
		s.rec = append(s.rec, Decision{G: g.id, Op: g.ops, Kind: DFault, Val: int64(v), Name: name})
		s.faultFired[name]++
		return v
	}
	return 0
}

// SetFaults switches fault injection (Decide/DecideN and stalls) on or off for
// the rest of the run; harnesses switch it off before they read the final
// state back.
func SetFaults(on bool) {
	if s := active; s != nil {
		s.noFaults = !on
		if !on {
			s.pstall = 0
		}
	}
}

// FaultEnabled reports whether a fault kind has a non-zero rate in this run.
func FaultEnabled(name string) bool {
	s := active
	if s == nil {
		return false
	}
	if s.replaying {
		return true
	}
	return s.cfg.Faults[name] > 0
}

// Quiet reports whether the fault-free tail of the run has begun.
func Quiet() bool {
	s := active
	return s != nil && s.cfg.QuietAt != 0 && s.now >= s.cfg.QuietAt
}

// Keys returns the keys of m in a deterministic order (replaces map iteration).
// Keys returns the keys of a map in the order a rewritten `for k := range m` visits them. Go leaves that order
// unspecified; inside a simulation it is a permutation drawn from the run's world PRNG (so code that only works
// for one order is found, and the same seed gives the same order), outside it is sorted.
func Keys[K comparable, V any](m map[K]V) []K {
	ks := sortedKeysOf(m)
	if s := active; s != nil && len(ks) > 1 && !s.aborting && !s.unwind {
		s.wrng.Shuffle(len(ks), func(i, j int) { ks[i], ks[j] = ks[j], ks[i] })
	}
	return ks
}

func sortedKeysOf[K comparable, V any](m map[K]V) []K {
	ks := make([]K, 0, len(m))
	for k := range m {
		ks = append(ks, k)
	}
	if len(ks) < 2 {
		return ks
	}
	switch any(ks[0]).(type) {
	case string:
		sort.Slice(ks, func(i, j int) bool { return any(ks[i]).(string) < any(ks[j]).(string) })
	case int:
		sort.Slice(ks, func(i, j int) bool { return any(ks[i]).(int) < any(ks[j]).(int) })
	case int64:
		sort.Slice(ks, func(i, j int) bool { return any(ks[i]).(int64) < any(ks[j]).(int64) })
	case uint64:
		sort.Slice(ks, func(i, j int) bool { return any(ks[i]).(uint64) < any(ks[j]).(uint64) })
	default:
		strs := make([]string, len(ks))
		for i := range ks {
			strs[i] = fmt.Sprintf("%v", ks[i])
		}
		idx := make([]int, len(ks))
		for i := range idx {
			idx[i] = i
		}
		sort.SliceStable(idx, func(a, b int) bool { return strs[idx[a]] < strs[idx[b]] })
		out := make([]K, len(ks))
		for i, j := range idx {
			out[i] = ks[j]
		}
		return out
	}
	return ks
}

var passthroughMu sync.Mutex // guards nothing in simulation; placeholder for vet
