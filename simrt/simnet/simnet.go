// Package simnet replaces package net in the few file.d packages that open a
// raw TCP connection themselves (the GELF output): everything is the real
// package except DialTimeout, which inside a simulation returns a connection
// to a server the harness installed. The server sees, per connection, the
// byte chunks the client managed to write; writes fail, are cut short, or the
// dial fails by seeded fault decisions ("net.dialerr", "net.writeerr",
// "net.shortwrite"), each taking simulated time.
package simnet

import (
	"errors"
	"io"
	"net"
	"time"

	"verif/simrt"
)

type (
	Conn     = net.Conn
	Dialer   = net.Dialer
	Addr     = net.Addr
	Error    = net.Error
	Listener = net.Listener
)

// Server is installed by the harness with Install.
type Server struct {
	// OnConnect is called for every successful dial with a fresh connection id.
	OnConnect func(id int)
	// OnData is called with every chunk that reached the server (a short write delivers the part that was written).
	OnData func(id int, b []byte, cut bool)
	// OnClose is called when the client closes the connection or a write error breaks it.
	OnClose func(id int)
	// Faults counts the injected dial and write failures.
	Faults int
	nextID int
}

const key = "simnet.server"

func Install(s *Server) { simrt.Active().Locals[key] = s }

var errRefused = errors.New("simnet: connection refused (injected)")
var errReset = errors.New("simnet: connection reset by peer (injected)")

func DialTimeout(network, address string, timeout time.Duration) (net.Conn, error) {
	s := simrt.Active()
	if s == nil {
		return net.DialTimeout(network, address, timeout)
	}
	if simrt.Dead() {
		return nil, errors.New("simnet: process is gone")
	}
	srv, _ := s.Locals[key].(*Server)
	if srv == nil {
		return nil, errors.New("simnet: no simulated server installed")
	}
	simrt.IOPoint()
	simrt.Sleep(time.Duration(1+s.WorldRand().IntN(5)) * time.Millisecond)
	if simrt.Decide("net.dialerr") {
		srv.Faults++
		return nil, errRefused
	}
	srv.nextID++
	c := &conn{srv: srv, id: srv.nextID}
	if srv.OnConnect != nil {
		srv.OnConnect(c.id)
	}
	return c, nil
}

type conn struct {
	srv    *Server
	id     int
	closed bool
	broken bool
}

type addr struct{}

func (addr) Network() string { return "tcp" }
func (addr) String() string  { return "sim:0" }

func (c *conn) Read(b []byte) (int, error) {
	simrt.IOPoint()
	if c.closed {
		return 0, net.ErrClosed
	}
	return 0, io.EOF
}

func (c *conn) Write(b []byte) (int, error) {
	simrt.IOPoint()
	if c.closed {
		return 0, net.ErrClosed
	}
	if c.broken {
		return 0, errReset
	}
	if simrt.Decide("net.writeerr") {
		c.srv.Faults++
		c.broken = true
		if c.srv.OnClose != nil {
			c.srv.OnClose(c.id)
		}
		return 0, errReset
	}
	if len(b) > 1 && simrt.Decide("net.shortwrite") {
		n := 1 + simrt.Active().WorldRand().IntN(len(b)-1)
		c.srv.Faults++
		c.srv.OnData(c.id, append([]byte(nil), b[:n]...), true)
		c.broken = true
		if c.srv.OnClose != nil {
			c.srv.OnClose(c.id)
		}
		return n, errReset
	}
	simrt.Sleep(time.Duration(s0(len(b))) * time.Microsecond)
	c.srv.OnData(c.id, append([]byte(nil), b...), false)
	return len(b), nil
}

func s0(n int) int { return 50 + n/10 }

func (c *conn) Close() error {
	simrt.IOPoint()
	if c.closed {
		return net.ErrClosed
	}
	c.closed = true
	if !c.broken && c.srv.OnClose != nil {
		c.srv.OnClose(c.id)
	}
	return nil
}

func (c *conn) LocalAddr() net.Addr                { return addr{} }
func (c *conn) RemoteAddr() net.Addr               { return addr{} }
func (c *conn) SetDeadline(t time.Time) error      { return nil }
func (c *conn) SetReadDeadline(t time.Time) error  { return nil }
func (c *conn) SetWriteDeadline(t time.Time) error { return nil }
