package simrt

import (
	"context"
	"errors"
	"runtime"
	"time"
)

// One simulated clock for every deadline. Wall clock = Epoch + monotonic
// simulated time; backward wall-clock jumps are deliberately not modelled.

func Now() time.Time {
	if s := active; s != nil {
		return Epoch.Add(s.now)
	}
	return time.Now()
}

func Since(t time.Time) time.Duration { return Now().Sub(t) }
func Until(t time.Time) time.Duration { return t.Sub(Now()) }

// SimNow returns the simulated monotonic time (0 outside a simulation).
func SimNow() time.Duration {
	if s := active; s != nil {
		return s.now
	}
	return 0
}

// Steps returns the global step counter (event sequence number for histories).
func Steps() int {
	if s := active; s != nil {
		return s.steps
	}
	return 0
}

func Sleep(d time.Duration) {
	s := active
	if s == nil {
		time.Sleep(d)
		return
	}
	if s.dead() {
		runtime.Goexit()
	}
	if d <= 0 {
		s.point(KSleep, 0)
		return
	}
	woke := false
	s.addTimer(d, func() { woke = true })
	for !woke {
		s.block(KSleep, uint64(d), func() bool { return woke })
	}
}

// ---- Timer ----

type Timer struct {
	C  <-chan time.Time
	c  chan time.Time
	t  *timer
	rt *time.Timer
	f  func()
	s  *Sim
}

func NewTimer(d time.Duration) *Timer {
	s := active
	if s == nil {
		rt := time.NewTimer(d)
		return &Timer{C: rt.C, rt: rt}
	}
	c := Reg(make(chan time.Time, 1))
	tm := &Timer{C: c, c: c, s: s}
	if !s.dead() {
		tm.arm(d)
	}
	return tm
}

func (tm *Timer) arm(d time.Duration) {
	s := tm.s
	if tm.f != nil {
		f := tm.f
		grp := 0
		if s.cur != nil {
			grp = s.cur.group
		}
		tm.t = s.addTimer(d, func() {
			g := s.newG("AfterFunc", grp)
			g.state = stRunnable
			s.start(g, f)
		})
		return
	}
	tm.t = s.addTimer(d, func() {
		if st := s.lookup(chanKey(tm.c)); st != nil && !st.closed {
			if sg := dequeue(&st.recvq); sg != nil {
				fire(sg, Epoch.Add(s.now), true)
			} else if len(st.buf) < 1 {
				st.buf = append(st.buf, Epoch.Add(s.now))
			}
		}
	})
}

func (tm *Timer) Stop() bool {
	if tm.rt != nil {
		return tm.rt.Stop()
	}
	s := tm.s
	if s != active || s.dead() || tm.t == nil {
		return false
	}
	was := !tm.t.off && tm.t.idx >= 0
	s.delTimer(tm.t)
	// Go 1.23+ semantics: no stale value is delivered after Stop.
	if tm.c != nil {
		if st := s.lookup(chanKey(tm.c)); st != nil {
			st.buf = st.buf[:0]
		}
	}
	return was
}

func (tm *Timer) Reset(d time.Duration) bool {
	if tm.rt != nil {
		return tm.rt.Reset(d)
	}
	if tm.s != active || tm.s.dead() {
		return false
	}
	was := tm.Stop()
	tm.arm(d)
	return was
}

func After(d time.Duration) <-chan time.Time { return NewTimer(d).C }

func AfterFunc(d time.Duration, f func()) *Timer {
	s := active
	if s == nil {
		return &Timer{rt: time.AfterFunc(d, f)}
	}
	tm := &Timer{f: f, s: s}
	if !s.dead() {
		tm.arm(d)
	}
	return tm
}

// ---- Ticker ----

type Ticker struct {
	C  <-chan time.Time
	c  chan time.Time
	t  *timer
	rt *time.Ticker
	d  time.Duration
	s  *Sim
}

func NewTicker(d time.Duration) *Ticker {
	if d <= 0 {
		panic("non-positive interval for NewTicker")
	}
	s := active
	if s == nil {
		rt := time.NewTicker(d)
		return &Ticker{C: rt.C, rt: rt}
	}
	c := Reg(make(chan time.Time, 1))
	tk := &Ticker{C: c, c: c, d: d, s: s}
	if !s.dead() {
		tk.arm()
	}
	return tk
}

func (tk *Ticker) arm() {
	s := tk.s
	tk.t = s.addTimer(tk.d, func() {
		if st := s.lookup(chanKey(tk.c)); st != nil {
			if sg := dequeue(&st.recvq); sg != nil {
				fire(sg, Epoch.Add(s.now), true)
			} else if len(st.buf) < 1 {
				st.buf = append(st.buf, Epoch.Add(s.now))
			}
		}
		grp := tk.t.grp
		tk.t = s.addTimer(tk.d, tk.t.fn)
		tk.t.grp = grp
	})
}

func (tk *Ticker) Stop() {
	if tk.rt != nil {
		tk.rt.Stop()
		return
	}
	if tk.s != active || tk.s.dead() || tk.t == nil {
		return
	}
	tk.s.delTimer(tk.t)
}

func (tk *Ticker) Reset(d time.Duration) {
	if tk.rt != nil {
		tk.rt.Reset(d)
		return
	}
	if tk.s != active || tk.s.dead() {
		return
	}
	tk.Stop()
	tk.d = d
	tk.arm()
}

func Tick(d time.Duration) <-chan time.Time { return NewTicker(d).C }

// ---- contexts on simulated time ----

type simCtx struct {
	parent   context.Context
	done     chan struct{}
	err      error
	deadline time.Time
	hasDl    bool
	tm       *timer
	s        *Sim
	children []*simCtx
}

func (c *simCtx) Deadline() (time.Time, bool) {
	if c.hasDl {
		return c.deadline, true
	}
	return c.parent.Deadline()
}
func (c *simCtx) Done() <-chan struct{} { return c.done }
func (c *simCtx) Err() error {
	if c.err != nil {
		return c.err
	}
	if c.s != active {
		return nil
	}
	if pe := c.parent.Err(); pe != nil && c.parentForeign() {
		return pe
	}
	return nil
}
func (c *simCtx) parentForeign() bool { _, ok := c.parent.(*simCtx); return !ok }
func (c *simCtx) Value(k any) any     { return c.parent.Value(k) }

func (c *simCtx) cancel(err error) {
	s := c.s
	if s != active || s.dead() || c.err != nil {
		return
	}
	c.err = err
	if c.tm != nil {
		s.delTimer(c.tm)
	}
	// closing in scheduler context: no scheduling point here
	if st := s.lookup(chanKey(c.done)); st != nil && !st.closed {
		st.closed = true
		for {
			sg := dequeue(&st.recvq)
			if sg == nil {
				break
			}
			fire(sg, nil, false)
		}
	}
	s.progress++
	for _, ch := range c.children {
		ch.cancel(err)
	}
	c.children = nil
}

func newSimCtx(parent context.Context) *simCtx {
	s := active
	c := &simCtx{parent: parent, done: Reg(make(chan struct{})), s: s}
	if p, ok := parent.(*simCtx); ok {
		if p.err != nil {
			c.cancel(p.err)
		} else {
			p.children = append(p.children, c)
		}
	} else if parent.Done() != nil {
		// foreign cancellable parent: watch it from a simulated goroutine
		pd := parent.Done()
		Go("ctx-watch", func() {
			sel := Select(false, CaseRecvRO(pd), CaseRecv(c.done))
			if sel.Index == 0 {
				c.cancel(parent.Err())
			}
		})
	}
	return c
}

func ContextWithCancel(parent context.Context) (context.Context, context.CancelFunc) {
	if active == nil {
		return context.WithCancel(parent)
	}
	c := newSimCtx(parent)
	return c, func() {
		if active == c.s && !c.s.dead() {
			c.s.point(KUser, 3)
		}
		c.cancel(context.Canceled)
	}
}

func ContextWithDeadline(parent context.Context, d time.Time) (context.Context, context.CancelFunc) {
	if active == nil {
		return context.WithDeadline(parent, d)
	}
	c := newSimCtx(parent)
	if pd, ok := parent.Deadline(); !ok || d.Before(pd) {
		c.deadline, c.hasDl = d, true
	}
	if c.err == nil && !c.s.dead() {
		c.tm = c.s.addTimer(Until(d), func() { c.cancel(context.DeadlineExceeded) })
	}
	return c, func() {
		if active == c.s && !c.s.dead() {
			c.s.point(KUser, 3)
		}
		c.cancel(context.Canceled)
	}
}

func ContextWithTimeout(parent context.Context, d time.Duration) (context.Context, context.CancelFunc) {
	if active == nil {
		return context.WithTimeout(parent, d)
	}
	return ContextWithDeadline(parent, Now().Add(d))
}

var ErrSimAborted = errors.New("simrt: aborted")

// AtSched runs fn in scheduler context (it must not yield) after d of
// simulated time. For sim-side packages.
func AtSched(d time.Duration, fn func()) {
	s := active
	if s == nil || s.dead() {
		return
	}
	s.addTimer(d, fn)
}
