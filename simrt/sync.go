package simrt

import (
	"runtime"
	"sync"
)

// The primitives mirror the Go runtime so that the simulation only produces
// behaviours real Go can produce: any waiter may win a Mutex, RWMutex is
// writer-preferring, Cond.Signal is FIFO and there are no spurious wake-ups.
//
// Every primitive carries the epoch of the simulation that last touched it; a
// primitive that survives from an earlier run (process-global state in file.d)
// is reset on first use in a new run.

type Locker = sync.Locker

// ---- Mutex ----

type Mutex struct {
	real   sync.Mutex
	ep     uint32
	locked bool
	owner  *G
}

func (m *Mutex) sync(s *Sim) {
	if m.ep != s.ep {
		m.ep = s.ep
		m.locked = false
		m.owner = nil
	}
}

// held: locked by a goroutine that still exists.
func (m *Mutex) held() bool {
	if m.locked && m.owner != nil && m.owner.killed {
		m.locked = false
		m.owner = nil
	}
	return m.locked
}

func (m *Mutex) Lock() {
	s := active
	if s == nil {
		m.real.Lock()
		return
	}
	if s.dead() {
		runtime.Goexit()
	}
	m.sync(s)
	s.point(KMutexLock, 0)
	for m.held() {
		s.block(KMutexBlock, 0, func() bool { return !m.held() })
	}
	m.locked = true
	m.owner = s.cur
}

func (m *Mutex) TryLock() bool {
	s := active
	if s == nil {
		return m.real.TryLock()
	}
	if s.dead() {
		return false
	}
	m.sync(s)
	s.point(KMutexLock, 1)
	if m.held() {
		return false
	}
	m.locked = true
	m.owner = s.cur
	return true
}

func (m *Mutex) Unlock() {
	s := active
	if s == nil {
		m.real.Unlock()
		return
	}
	if s.dead() {
		return
	}
	m.sync(s)
	if !m.locked {
		panic("sync: unlock of unlocked mutex")
	}
	m.locked = false
	m.owner = nil
	s.point(KMutexUnlock, 0)
}

// ---- RWMutex (writer preference like the runtime) ----

type RWMutex struct {
	real     sync.RWMutex
	ep       uint32
	readers  []*G
	writer   *G
	wwaiting []*G
}

func (m *RWMutex) sync(s *Sim) {
	if m.ep != s.ep {
		m.ep = s.ep
		m.readers = nil
		m.writer = nil
		m.wwaiting = nil
	}
}

func (m *RWMutex) scrub() {
	if m.writer != nil && m.writer.killed {
		m.writer = nil
	}
	k := 0
	for _, r := range m.readers {
		if !r.killed {
			m.readers[k] = r
			k++
		}
	}
	m.readers = m.readers[:k]
	k = 0
	for _, r := range m.wwaiting {
		if !r.killed {
			m.wwaiting[k] = r
			k++
		}
	}
	m.wwaiting = m.wwaiting[:k]
}

func (m *RWMutex) canRead() bool  { m.scrub(); return m.writer == nil && len(m.wwaiting) == 0 }
func (m *RWMutex) canWrite() bool { m.scrub(); return m.writer == nil && len(m.readers) == 0 }

func (m *RWMutex) RLock() {
	s := active
	if s == nil {
		m.real.RLock()
		return
	}
	if s.dead() {
		runtime.Goexit()
	}
	m.sync(s)
	s.point(KRLock, 0)
	for !m.canRead() {
		s.block(KMutexBlock, 1, m.canRead)
	}
	m.readers = append(m.readers, s.cur)
}

func (m *RWMutex) TryRLock() bool {
	s := active
	if s == nil {
		return m.real.TryRLock()
	}
	if s.dead() {
		return false
	}
	m.sync(s)
	s.point(KRLock, 1)
	if !m.canRead() {
		return false
	}
	m.readers = append(m.readers, s.cur)
	return true
}

func (m *RWMutex) RUnlock() {
	s := active
	if s == nil {
		m.real.RUnlock()
		return
	}
	if s.dead() {
		return
	}
	m.sync(s)
	if len(m.readers) == 0 {
		panic("sync: RUnlock of unlocked RWMutex")
	}
	// remove one entry, preferably the caller's
	idx := len(m.readers) - 1
	for i, r := range m.readers {
		if r == s.cur {
			idx = i
			break
		}
	}
	m.readers = append(m.readers[:idx], m.readers[idx+1:]...)
	s.point(KRUnlock, 0)
}

func (m *RWMutex) Lock() {
	s := active
	if s == nil {
		m.real.Lock()
		return
	}
	if s.dead() {
		runtime.Goexit()
	}
	m.sync(s)
	s.point(KMutexLock, 2)
	if !m.canWrite() {
		g := s.cur
		m.wwaiting = append(m.wwaiting, g)
		for !m.canWrite() {
			s.block(KMutexBlock, 2, m.canWrite)
		}
		for i, x := range m.wwaiting {
			if x == g {
				m.wwaiting = append(m.wwaiting[:i], m.wwaiting[i+1:]...)
				break
			}
		}
	}
	m.writer = s.cur
}

func (m *RWMutex) TryLock() bool {
	s := active
	if s == nil {
		return m.real.TryLock()
	}
	if s.dead() {
		return false
	}
	m.sync(s)
	s.point(KMutexLock, 3)
	if !m.canWrite() {
		return false
	}
	m.writer = s.cur
	return true
}

func (m *RWMutex) Unlock() {
	s := active
	if s == nil {
		m.real.Unlock()
		return
	}
	if s.dead() {
		return
	}
	m.sync(s)
	if m.writer == nil {
		panic("sync: Unlock of unlocked RWMutex")
	}
	m.writer = nil
	s.point(KMutexUnlock, 1)
}

func (m *RWMutex) RLocker() Locker { return (*rlocker)(m) }

type rlocker RWMutex

func (r *rlocker) Lock()   { (*RWMutex)(r).RLock() }
func (r *rlocker) Unlock() { (*RWMutex)(r).RUnlock() }

// ---- Cond (FIFO signal, no spurious wake-ups) ----

type Cond struct {
	L    Locker
	real *sync.Cond
	ep   uint32
	q    []*condWaiter
}

type condWaiter struct {
	woken bool
	g     *G
}

func NewCond(l Locker) *Cond { return &Cond{L: l} }

func (c *Cond) sync(s *Sim) {
	if c.ep != s.ep {
		c.ep = s.ep
		c.q = nil
	}
}

func (c *Cond) realCond() *sync.Cond {
	if c.real == nil {
		c.real = sync.NewCond(c.L)
	}
	return c.real
}

func (c *Cond) Wait() {
	s := active
	if s == nil {
		c.realCond().Wait()
		return
	}
	if s.dead() {
		runtime.Goexit()
	}
	c.sync(s)
	// The window between the caller's condition check and joining the wait
	// queue is a scheduling point only if the caller does not hold c.L; with
	// c.L held no signaller that also takes c.L can get in between. It is a
	// point here regardless: signallers that do not take the lock (file.d has
	// several) can then land inside the window, as in real Go.
	s.point(KCondWait, 0)
	w := &condWaiter{g: s.cur}
	c.q = append(c.q, w)
	c.L.Unlock()
	for !w.woken {
		s.block(KCondPark, 0, func() bool { return w.woken })
	}
	c.L.Lock()
}

func (c *Cond) Signal() {
	s := active
	if s == nil {
		c.realCond().Signal()
		return
	}
	if s.dead() {
		return
	}
	c.sync(s)
	s.point(KCondSignal, 0)
	for len(c.q) > 0 {
		w := c.q[0]
		c.q = c.q[1:]
		if w.g.killed {
			continue
		}
		w.woken = true
		break
	}
}

func (c *Cond) Broadcast() {
	s := active
	if s == nil {
		c.realCond().Broadcast()
		return
	}
	if s.dead() {
		return
	}
	c.sync(s)
	s.point(KCondBroadcast, 0)
	for _, w := range c.q {
		w.woken = true
	}
	c.q = nil
}

// Waiters returns the number of goroutines parked in Wait (harness probes).
func (c *Cond) Waiters() int { return len(c.q) }

// ---- WaitGroup ----

type WaitGroup struct {
	real sync.WaitGroup
	ep   uint32
	n    int
}

func (w *WaitGroup) sync(s *Sim) {
	if w.ep != s.ep {
		w.ep = s.ep
		w.n = 0
	}
}

func (w *WaitGroup) Add(d int) {
	s := active
	if s == nil {
		w.real.Add(d)
		return
	}
	if s.dead() {
		return
	}
	w.sync(s)
	w.n += d
	if w.n < 0 {
		panic("sync: negative WaitGroup counter")
	}
	s.point(KWGWait, 1)
}

func (w *WaitGroup) Done() { w.Add(-1) }

func (w *WaitGroup) Go(f func()) {
	w.Add(1)
	Go("WaitGroup.Go", func() {
		defer w.Done()
		f()
	})
}

func (w *WaitGroup) Wait() {
	s := active
	if s == nil {
		w.real.Wait()
		return
	}
	if s.dead() {
		runtime.Goexit()
	}
	w.sync(s)
	s.point(KWGWait, 0)
	for w.n > 0 {
		s.block(KWGWait, 2, func() bool { return w.n == 0 })
	}
}

// ---- Once ----

type Once struct {
	real sync.Once
	ep   uint32
	done bool
	m    Mutex
}

func (o *Once) Do(f func()) {
	s := active
	if s == nil {
		o.real.Do(f)
		return
	}
	if s.dead() {
		return
	}
	if o.ep != s.ep {
		o.ep = s.ep
		o.done = false
	}
	s.point(KOnce, 0)
	if o.done {
		return
	}
	o.m.Lock()
	defer o.m.Unlock()
	if !o.done {
		defer func() { o.done = true }()
		f()
	}
}

// ---- Pool (deterministic LIFO, optional seeded misses) ----

type Pool struct {
	New   func() any
	ep    uint32
	items []any
	real  sync.Pool
}

func (p *Pool) Get() any {
	s := active
	if s == nil {
		if x := p.real.Get(); x != nil {
			return x
		}
		if p.New != nil {
			return p.New()
		}
		return nil
	}
	if p.ep != s.ep {
		p.ep = s.ep
		p.items = nil
	}
	if n := len(p.items); n > 0 && !s.dead() {
		if s.cfg.PoolMiss > 0 && !s.replaying && s.wrng.Float64() < s.cfg.PoolMiss {
			// buggify: GC emptied the pool
			p.items = p.items[:0]
			s.probes["buggify.pool-miss"]++
		} else {
			x := p.items[n-1]
			p.items[n-1] = nil
			p.items = p.items[:n-1]
			return x
		}
	}
	if p.New != nil {
		return p.New()
	}
	return nil
}

func (p *Pool) Put(x any) {
	s := active
	if s == nil {
		p.real.Put(x)
		return
	}
	if s.dead() {
		return
	}
	if p.ep != s.ep {
		p.ep = s.ep
		p.items = nil
	}
	p.items = append(p.items, x)
}

// ---- Map (deterministic Range) ----

type Map struct {
	mu sync.Mutex
	m  map[any]any
	ks []any
}

func (m *Map) Load(k any) (any, bool) {
	m.mu.Lock()
	defer m.mu.Unlock()
	v, ok := m.m[k]
	return v, ok
}

func (m *Map) Store(k, v any) {
	m.mu.Lock()
	defer m.mu.Unlock()
	if m.m == nil {
		m.m = map[any]any{}
	}
	if _, ok := m.m[k]; !ok {
		m.ks = append(m.ks, k)
	}
	m.m[k] = v
}

func (m *Map) LoadOrStore(k, v any) (any, bool) {
	m.mu.Lock()
	defer m.mu.Unlock()
	if m.m == nil {
		m.m = map[any]any{}
	}
	if old, ok := m.m[k]; ok {
		return old, true
	}
	m.ks = append(m.ks, k)
	m.m[k] = v
	return v, false
}

func (m *Map) LoadAndDelete(k any) (any, bool) {
	m.mu.Lock()
	defer m.mu.Unlock()
	v, ok := m.m[k]
	if ok {
		m.del(k)
	}
	return v, ok
}

func (m *Map) del(k any) {
	delete(m.m, k)
	for i, x := range m.ks {
		if x == k {
			m.ks = append(m.ks[:i], m.ks[i+1:]...)
			break
		}
	}
}

func (m *Map) Delete(k any) {
	m.mu.Lock()
	defer m.mu.Unlock()
	if _, ok := m.m[k]; ok {
		m.del(k)
	}
}

// Range iterates in insertion order.
func (m *Map) Range(f func(k, v any) bool) {
	m.mu.Lock()
	ks := append([]any(nil), m.ks...)
	m.mu.Unlock()
	for _, k := range ks {
		v, ok := m.Load(k)
		if !ok {
			continue
		}
		if !f(k, v) {
			return
		}
	}
}
