// Package simos replaces "os" in the packages of file.d that do file I/O.
// Inside a simulation it is an in-memory POSIX-like file system with two
// layers per inode - the page cache a running process sees and the durable
// content that survives power loss - and an ordered journal of namespace
// operations. Outside a simulation every call delegates to the real os
// package, so the rewritten tree remains a drop-in equivalent.
package simos

import (
	"errors"
	"fmt"
	"io"
	"io/fs"
	"os"
	"path"
	"sort"
	"strings"
	"syscall"
	"time"

	"verif/simrt"
)

type (
	FileInfo  = fs.FileInfo
	FileMode  = fs.FileMode
	DirEntry  = fs.DirEntry
	PathError = fs.PathError
)

const (
	O_RDONLY = os.O_RDONLY
	O_WRONLY = os.O_WRONLY
	O_RDWR   = os.O_RDWR
	O_APPEND = os.O_APPEND
	O_CREATE = os.O_CREATE
	O_EXCL   = os.O_EXCL
	O_SYNC   = os.O_SYNC
	O_TRUNC  = os.O_TRUNC

	ModeDir     = fs.ModeDir
	ModeSymlink = fs.ModeSymlink
	ModePerm    = fs.ModePerm

	PathSeparator = os.PathSeparator
)

var (
	ErrNotExist = fs.ErrNotExist
	ErrExist    = fs.ErrExist
	ErrClosed   = fs.ErrClosed
	Stdout      = &File{real: os.Stdout}
	Stderr      = &File{real: os.Stderr}
	Args        = os.Args
)

func IsNotExist(err error) bool { return os.IsNotExist(err) }
func IsExist(err error) bool    { return os.IsExist(err) }
func Getenv(k string) string    { return os.Getenv(k) }
func Exit(code int)             { os.Exit(code) }
func TempDir() string           { return os.TempDir() }
func Getpid() int               { return os.Getpid() }
func Hostname() (string, error) { return os.Hostname() }

// ---------------------------------------------------------------------------
// the simulated file system

type inode struct {
	ino      uint64
	dir      bool
	link     string // symlink target ("" otherwise)
	children map[string]*inode
	data     []byte // page cache: what a running process reads
	durable  []byte // what survives power loss
	synced   bool   // durable is meaningful (file was fsynced at least once)
	mtime    time.Time
	nlink    int
}

type metaOp struct {
	kind     string // create, rename, remove, mkdir, symlink
	from, to string
	ino      *inode
	replaced *inode // rename: what the target name pointed to before (atomic replace)
}

// Op describes one I/O call for hooks and traces.
type Op struct {
	Seq  int
	Kind string // open create read write sync rename remove close stat
	Path string
}

// Outcome of a hook: inject an error, a short write, or nothing.
type Outcome struct {
	Err   error
	Short int  // >0: write only this many bytes and return an error
	Crash bool // the process dies right before this call: the disk freezes, the caller never returns
}

// FS is one simulated disk.
type FS struct {
	root    *inode
	nextIno uint64
	aliases [][2]string // path prefix alias -> real prefix
	journal []metaOp    // namespace operations not yet durable
	durRoot *inode      // durable namespace (rebuilt lazily from a snapshot + journal)
	OpSeq   int
	// Frozen: the process that used this disk is gone (crash instant passed);
	// every os-level call fails without effect until Thaw.
	Frozen bool
	// Hook, when set, is consulted at every mutating I/O call and at sync.
	Hook func(op Op) Outcome
	// Watch receives namespace and write notifications (simnotify).
	Watch func(event string, p string)
	// Log of I/O operations (bounded), for diagnostics.
	Trace                              []Op
	TraceOn                            bool
	Cwd                                string
	WriteCount, SyncCount, RenameCount int
	// ReadCount: Read calls per inode (harness oracles: "has the reader looked at this file since ...")
	ReadCount map[uint64]int
}

const fsKey = "simos.fs"

// NewFS creates an empty disk and installs it in the running simulation.
func NewFS() *FS {
	f := &FS{nextIno: 100, Cwd: "/"}
	f.root = f.newInode(true)
	f.durRoot = nil
	if s := simrt.Active(); s != nil {
		s.Locals[fsKey] = f
	}
	return f
}

// Cur returns the disk of the running simulation (nil outside one).
func Cur() *FS {
	if s := simrt.Active(); s != nil {
		if f, ok := s.Locals[fsKey].(*FS); ok {
			return f
		}
	}
	return nil
}

func (f *FS) newInode(dir bool) *inode {
	f.nextIno++
	n := &inode{ino: f.nextIno, dir: dir, mtime: simrt.Now()}
	if dir {
		n.children = map[string]*inode{}
	}
	return n
}

// Alias makes `alias` another name of directory `target` (a second mount of
// the same disk), used by harnesses for restarts inside one process.
func (f *FS) Alias(alias, target string) {
	f.aliases = append(f.aliases, [2]string{path.Clean(alias), path.Clean(target)})
}

// Canonical returns the alias-free absolute path.
func (f *FS) Canonical(p string) string { return f.resolveAlias(p) }

func (f *FS) resolveAlias(p string) string {
	if !path.IsAbs(p) {
		p = path.Join(f.Cwd, p)
	}
	p = path.Clean(p)
	for _, a := range f.aliases {
		if p == a[0] {
			return a[1]
		}
		if strings.HasPrefix(p, a[0]+"/") {
			return a[1] + p[len(a[0]):]
		}
	}
	return p
}

func split(p string) []string {
	p = strings.Trim(p, "/")
	if p == "" {
		return nil
	}
	return strings.Split(p, "/")
}

// walk resolves a path; followLast: follow a symlink in the last component.
func (f *FS) walk(p string, followLast bool, depth int) (parent *inode, name string, n *inode, err error) {
	if depth > 16 {
		return nil, "", nil, syscall.ELOOP
	}
	p = f.resolveAlias(p)
	parts := split(p)
	cur := f.root
	if len(parts) == 0 {
		return nil, "", cur, nil
	}
	for i, part := range parts {
		if !cur.dir {
			return nil, "", nil, syscall.ENOTDIR
		}
		child := cur.children[part]
		last := i == len(parts)-1
		if child != nil && child.link != "" && (!last || followLast) {
			target := child.link
			if !path.IsAbs(target) {
				target = path.Join("/"+strings.Join(parts[:i], "/"), target)
			}
			rest := strings.Join(parts[i+1:], "/")
			return f.walk(path.Join(target, rest), followLast, depth+1)
		}
		if last {
			return cur, part, child, nil
		}
		if child == nil {
			return nil, "", nil, syscall.ENOENT
		}
		cur = child
	}
	return nil, "", nil, syscall.ENOENT
}

func pe(op, p string, err error) error { return &fs.PathError{Op: op, Path: p, Err: err} }

func (f *FS) op(kind, p string) (Outcome, int) {
	f.OpSeq++
	o := Op{Seq: f.OpSeq, Kind: kind, Path: p}
	if f.TraceOn {
		if len(f.Trace) > 2000 {
			f.Trace = f.Trace[1000:]
		}
		f.Trace = append(f.Trace, o)
	}
	if f.Hook != nil {
		out := f.Hook(o)
		if out.Crash {
			f.Frozen = true
			simrt.WaitUntil(func() bool { return false })
		}
		return out, f.OpSeq
	}
	return Outcome{}, f.OpSeq
}

// Thaw lets a new incarnation use the disk again.
func (f *FS) Thaw() { f.Frozen = false }

func (f *FS) notify(event, p string) {
	if f.Watch != nil {
		f.Watch(event, p)
	}
}

// ---- harness-side API (never yields) ----

// WriteFileDirect creates/overwrites a file as an external program would;
// the data counts as durable (log files are the application's concern).
func (f *FS) WriteFileDirect(p string, data []byte) {
	parent, name, n, err := f.walk(p, true, 0)
	if err != nil || parent == nil {
		panic("simos: WriteFileDirect " + p)
	}
	created := false
	if n == nil {
		n = f.newInode(false)
		n.nlink = 1
		parent.children[name] = n
		created = true
	}
	n.data = append([]byte(nil), data...)
	n.durable = append([]byte(nil), data...)
	n.synced = true
	n.mtime = simrt.Now()
	if created {
		f.notify("create", f.resolveAlias(p))
	} else {
		f.notify("write", f.resolveAlias(p))
	}
}

// AppendDirect appends as an external writer (durable).
func (f *FS) AppendDirect(p string, data []byte) {
	parent, name, n, err := f.walk(p, true, 0)
	if err != nil || parent == nil {
		panic("simos: AppendDirect " + p)
	}
	created := false
	if n == nil {
		n = f.newInode(false)
		n.nlink = 1
		parent.children[name] = n
		created = true
	}
	n.data = append(n.data, data...)
	n.durable = append([]byte(nil), n.data...)
	n.synced = true
	n.mtime = simrt.Now()
	if created {
		f.notify("create", f.resolveAlias(p))
	} else {
		f.notify("write", f.resolveAlias(p))
	}
}

// TruncateDirect truncates a file to zero as an external program would.
func (f *FS) TruncateDirect(p string) {
	_, _, n, err := f.walk(p, true, 0)
	if err != nil || n == nil {
		return
	}
	n.data = n.data[:0:0]
	n.durable = nil
	n.mtime = simrt.Now()
	f.notify("write", f.resolveAlias(p))
}

func (f *FS) RenameDirect(from, to string) error {
	return f.rename(from, to, true)
}

func (f *FS) RemoveDirect(p string) error { return f.remove(p, true) }

func (f *FS) MkdirAllDirect(p string) {
	p = f.resolveAlias(p)
	cur := f.root
	for _, part := range split(p) {
		c := cur.children[part]
		if c == nil {
			c = f.newInode(true)
			cur.children[part] = c
		}
		cur = c
	}
}

func (f *FS) SymlinkDirect(target, link string) {
	parent, name, _, err := f.walk(link, false, 0)
	if err != nil || parent == nil {
		panic("simos: symlink " + link)
	}
	n := f.newInode(false)
	n.link = target
	parent.children[name] = n
	f.notify("create", f.resolveAlias(link))
}

// ReadDirect returns the cached content (nil if absent).
func (f *FS) ReadDirect(p string) ([]byte, bool) {
	_, _, n, err := f.walk(p, true, 0)
	if err != nil || n == nil || n.dir {
		return nil, false
	}
	return append([]byte(nil), n.data...), true
}

func (f *FS) Ino(p string) uint64 {
	_, _, n, err := f.walk(p, true, 0)
	if err != nil || n == nil {
		return 0
	}
	return n.ino
}

// List returns the file names of a directory, sorted.
func (f *FS) List(p string) []string {
	_, _, n, err := f.walk(p, true, 0)
	if err != nil || n == nil || !n.dir {
		return nil
	}
	var out []string
	for k := range n.children {
		out = append(out, k)
	}
	sort.Strings(out)
	return out
}

// PowerLoss reverts the disk to what survives a power failure: every
// namespace operation that was not made durable is undone except for a seeded
// prefix, and every inode keeps its durable content plus, possibly, a seeded
// prefix of the data written since (write-back that happened by itself; torn
// at a byte position). pick(n) must return a number in [0,n].
func (f *FS) PowerLoss(pick func(n int) int) {
	// 1. namespace: undo the journal suffix
	keep := pick(len(f.journal))
	for i := len(f.journal) - 1; i >= keep; i-- {
		f.undo(f.journal[i])
	}
	f.journal = nil
	// 2. contents
	var visit func(n *inode)
	seen := map[*inode]bool{}
	visit = func(n *inode) {
		if seen[n] {
			return
		}
		seen[n] = true
		if n.dir {
			for _, k := range sortedKeys(n.children) {
				visit(n.children[k])
			}
			return
		}
		if n.link != "" {
			return
		}
		dur := n.durable
		if !n.synced {
			dur = nil
		}
		if len(n.data) >= len(dur) && string(n.data[:len(dur)]) == string(dur) {
			extra := len(n.data) - len(dur)
			k := pick(extra)
			n.data = append([]byte(nil), n.data[:len(dur)+k]...)
		} else {
			n.data = append([]byte(nil), dur...)
		}
		n.durable = append([]byte(nil), n.data...)
		n.synced = true
	}
	visit(f.root)
}

func sortedKeys(m map[string]*inode) []string {
	ks := make([]string, 0, len(m))
	for k := range m {
		ks = append(ks, k)
	}
	sort.Strings(ks)
	return ks
}

func (f *FS) undo(op metaOp) {
	switch op.kind {
	case "create", "mkdir", "symlink":
		if parent, name, n, err := f.walk(op.to, false, 0); err == nil && parent != nil && n == op.ino {
			delete(parent.children, name)
		}
	case "remove":
		if parent, name, _, err := f.walk(op.from, false, 0); err == nil && parent != nil {
			parent.children[name] = op.ino
		}
	case "rename":
		// op.ino = moved inode; op.replaced kept in `from` of a second record
		if parent, name, n, err := f.walk(op.to, false, 0); err == nil && parent != nil && n == op.ino {
			delete(parent.children, name)
			if op.replaced != nil {
				parent.children[name] = op.replaced
			}
		}
		if parent, name, _, err := f.walk(op.from, false, 0); err == nil && parent != nil {
			parent.children[name] = op.ino
		}
	}
}

// commitJournal: an fsync forces the journal out (ext4-like).
func (f *FS) commitJournal() { f.journal = nil }

func (f *FS) rename(from, to string, direct bool) error {
	fp, fname, fn, err := f.walk(from, false, 0)
	if err != nil {
		return &os.LinkError{Op: "rename", Old: from, New: to, Err: err}
	}
	if fn == nil || fp == nil {
		return &os.LinkError{Op: "rename", Old: from, New: to, Err: syscall.ENOENT}
	}
	tp, tname, tn, err := f.walk(to, false, 0)
	if err != nil || tp == nil {
		return &os.LinkError{Op: "rename", Old: from, New: to, Err: syscall.ENOENT}
	}
	if tn != nil && tn.dir && !fn.dir {
		return &os.LinkError{Op: "rename", Old: from, New: to, Err: syscall.EISDIR}
	}
	delete(fp.children, fname)
	tp.children[tname] = fn
	if !direct {
		f.journal = append(f.journal, metaOp{kind: "rename", from: from, to: to, ino: fn, replaced: tn})
	}
	f.RenameCount++
	f.notify("rename", f.resolveAlias(from))
	f.notify("create", f.resolveAlias(to))
	return nil
}

func (f *FS) remove(p string, direct bool) error {
	parent, name, n, err := f.walk(p, false, 0)
	if err != nil {
		return pe("remove", p, err)
	}
	if n == nil || parent == nil {
		return pe("remove", p, syscall.ENOENT)
	}
	if n.dir && len(n.children) > 0 {
		return pe("remove", p, syscall.ENOTEMPTY)
	}
	delete(parent.children, name)
	if !direct {
		f.journal = append(f.journal, metaOp{kind: "remove", from: p, ino: n})
	}
	f.notify("remove", f.resolveAlias(p))
	return nil
}

// ---------------------------------------------------------------------------
// os API

type File struct {
	real   *os.File
	fs     *FS
	n      *inode
	name   string
	pos    int64
	flag   int
	closed bool
}

var dbg = os.Getenv("SIMOS_DEBUG") != ""

func dlog(format string, a ...any) {
	if dbg {
		println(simrt.SimNow().String(), "g", simrt.CurG(), sprintf(format, a...))
	}
}

func dead() bool {
	if simrt.Dead() {
		return true
	}
	if f := Cur(); f != nil && f.Frozen {
		return true
	}
	return false
}

var errDead = errors.New("simos: process is gone")

func Open(name string) (*File, error) { return OpenFile(name, O_RDONLY, 0) }
func Create(name string) (*File, error) {
	return OpenFile(name, O_RDWR|O_CREATE|O_TRUNC, 0o666)
}

func OpenFile(name string, flag int, perm FileMode) (*File, error) {
	f := Cur()
	if f == nil {
		r, err := os.OpenFile(name, flag, perm)
		if err != nil {
			return nil, err
		}
		return &File{real: r}, nil
	}
	if dead() {
		return nil, errDead
	}
	simrt.IOPoint()
	if simrt.Decide("disk.open") {
		return nil, pe("open", name, syscall.EMFILE)
	}
	kind := "open"
	if flag&O_CREATE != 0 {
		kind = "create"
	}
	if out, _ := f.op(kind, name); out.Err != nil {
		return nil, pe("open", name, out.Err)
	}
	parent, base, n, err := f.walk(name, true, 0)
	if err != nil {
		return nil, pe("open", name, err)
	}
	if n == nil {
		if flag&O_CREATE == 0 || parent == nil {
			return nil, pe("open", name, syscall.ENOENT)
		}
		n = f.newInode(false)
		n.nlink = 1
		parent.children[base] = n
		f.journal = append(f.journal, metaOp{kind: "create", to: name, ino: n})
		f.notify("create", f.resolveAlias(name))
	} else if flag&O_CREATE != 0 && flag&O_EXCL != 0 {
		return nil, pe("open", name, syscall.EEXIST)
	}
	if n.dir && flag&(O_WRONLY|O_RDWR) != 0 {
		return nil, pe("open", name, syscall.EISDIR)
	}
	if flag&O_TRUNC != 0 && !n.dir {
		n.data = n.data[:0:0]
		n.mtime = simrt.Now()
	}
	return &File{fs: f, n: n, name: name, flag: flag}, nil
}

func (fl *File) Name() string {
	if fl.real != nil {
		return fl.real.Name()
	}
	return fl.name
}

func (fl *File) Fd() uintptr {
	if fl.real != nil {
		return fl.real.Fd()
	}
	return uintptr(fl.n.ino)
}

func (fl *File) Read(b []byte) (int, error) {
	if fl.real != nil {
		return fl.real.Read(b)
	}
	if dead() {
		return 0, errDead
	}
	if fl.closed {
		return 0, pe("read", fl.name, fs.ErrClosed)
	}
	simrt.IOPoint()
	fl.fs.op("read", fl.name)
	if fl.fs.ReadCount == nil {
		fl.fs.ReadCount = map[uint64]int{}
	}
	fl.fs.ReadCount[fl.n.ino]++
	if len(b) == 0 {
		return 0, nil
	}
	if fl.pos >= int64(len(fl.n.data)) {
		dlog("read %s ino=%d EOF pos=%d size=%d", fl.name, fl.n.ino, fl.pos, len(fl.n.data))
		return 0, io.EOF
	}
	n := copy(b, fl.n.data[fl.pos:])
	// short read: legal for any io.Reader (never 0 without EOF)
	if n > 1 {
		if k := simrt.DecideN("disk.shortread", n); k > 0 {
			n = k
		}
	}
	fl.pos += int64(n)
	dlog("read %s ino=%d n=%d pos=%d size=%d", fl.name, fl.n.ino, n, fl.pos, len(fl.n.data))
	return n, nil
}

func (fl *File) ReadAt(b []byte, off int64) (int, error) {
	if fl.real != nil {
		return fl.real.ReadAt(b, off)
	}
	if dead() {
		return 0, errDead
	}
	simrt.IOPoint()
	if off >= int64(len(fl.n.data)) {
		return 0, io.EOF
	}
	n := copy(b, fl.n.data[off:])
	if n < len(b) {
		return n, io.EOF
	}
	return n, nil
}

func (fl *File) Write(b []byte) (int, error) {
	if fl.real != nil {
		return fl.real.Write(b)
	}
	if dead() {
		return 0, errDead
	}
	if fl.closed {
		return 0, pe("write", fl.name, fs.ErrClosed)
	}
	simrt.IOPoint()
	out, _ := fl.fs.op("write", fl.name)
	if fl.flag&(O_WRONLY|O_RDWR) == 0 {
		return 0, pe("write", fl.name, syscall.EBADF)
	}
	n := len(b)
	var werr error
	switch {
	case out.Short > 0 && out.Short < n:
		n, werr = out.Short, pe("write", fl.name, syscall.ENOSPC)
	case out.Err != nil:
		n, werr = 0, pe("write", fl.name, out.Err)
	case simrt.Decide("disk.write"):
		n, werr = 0, pe("write", fl.name, syscall.EIO)
	case n > 1:
		if k := simrt.DecideN("disk.short", n); k > 0 {
			n, werr = k, pe("write", fl.name, syscall.ENOSPC)
		}
	}
	if fl.flag&O_APPEND != 0 {
		fl.pos = int64(len(fl.n.data))
	}
	if n > 0 {
		end := fl.pos + int64(n)
		if end > int64(len(fl.n.data)) {
			nd := make([]byte, end)
			copy(nd, fl.n.data)
			fl.n.data = nd
		}
		copy(fl.n.data[fl.pos:], b[:n])
		fl.pos = end
		fl.n.mtime = simrt.Now()
		fl.fs.WriteCount++
		fl.fs.notify("write", fl.fs.resolveAlias(fl.name))
	}
	return n, werr
}

func (fl *File) WriteString(s string) (int, error) { return fl.Write([]byte(s)) }

func (fl *File) Seek(offset int64, whence int) (int64, error) {
	if fl.real != nil {
		return fl.real.Seek(offset, whence)
	}
	if dead() {
		return 0, errDead
	}
	if fl.closed {
		return 0, pe("seek", fl.name, fs.ErrClosed)
	}
	var np int64
	switch whence {
	case io.SeekStart:
		np = offset
	case io.SeekCurrent:
		np = fl.pos + offset
	case io.SeekEnd:
		np = int64(len(fl.n.data)) + offset
	}
	if np < 0 {
		return 0, pe("seek", fl.name, syscall.EINVAL)
	}
	if !(whence == io.SeekCurrent && offset == 0) {
		dlog("seek %s ino=%d off=%d whence=%d -> %d", fl.name, fl.n.ino, offset, whence, np)
	}
	fl.pos = np
	return np, nil
}

func (fl *File) Sync() error {
	if fl.real != nil {
		return fl.real.Sync()
	}
	if dead() {
		return errDead
	}
	if fl.closed {
		return pe("sync", fl.name, fs.ErrClosed)
	}
	simrt.IOPoint()
	out, _ := fl.fs.op("sync", fl.name)
	if out.Err != nil {
		return pe("sync", fl.name, out.Err)
	}
	if simrt.Decide("disk.sync") {
		return pe("sync", fl.name, syscall.EIO)
	}
	fl.n.durable = append([]byte(nil), fl.n.data...)
	fl.n.synced = true
	fl.fs.commitJournal()
	fl.fs.SyncCount++
	return nil
}

func (fl *File) Truncate(size int64) error {
	if fl.real != nil {
		return fl.real.Truncate(size)
	}
	if dead() {
		return errDead
	}
	simrt.IOPoint()
	if size < int64(len(fl.n.data)) {
		fl.n.data = append([]byte(nil), fl.n.data[:size]...)
	} else {
		nd := make([]byte, size)
		copy(nd, fl.n.data)
		fl.n.data = nd
	}
	fl.fs.notify("write", fl.fs.resolveAlias(fl.name))
	return nil
}

func (fl *File) Close() error {
	if fl.real != nil {
		return fl.real.Close()
	}
	if dead() {
		return nil
	}
	if fl.closed {
		return pe("close", fl.name, fs.ErrClosed)
	}
	fl.fs.op("close", fl.name)
	fl.closed = true
	return nil
}

func (fl *File) Stat() (FileInfo, error) {
	if fl.real != nil {
		return fl.real.Stat()
	}
	if dead() {
		return nil, errDead
	}
	if fl.closed {
		return nil, pe("stat", fl.name, fs.ErrClosed)
	}
	simrt.IOPoint()
	return &info{name: path.Base(fl.name), n: fl.n, size: int64(len(fl.n.data))}, nil
}

func (fl *File) Readdirnames(n int) ([]string, error) {
	if fl.real != nil {
		return fl.real.Readdirnames(n)
	}
	return sortedKeys(fl.n.children), nil
}

type info struct {
	name string
	n    *inode
	size int64
}

func (i *info) Name() string { return i.name }
func (i *info) Size() int64  { return i.size }
func (i *info) Mode() FileMode {
	switch {
	case i.n.dir:
		return fs.ModeDir | 0o755
	case i.n.link != "":
		return fs.ModeSymlink | 0o777
	}
	return 0o644
}
func (i *info) ModTime() time.Time { return i.n.mtime }
func (i *info) IsDir() bool        { return i.n.dir }
func (i *info) Sys() any           { return &syscall.Stat_t{Ino: i.n.ino, Size: i.size} }

func statImpl(name string, follow bool) (FileInfo, error) {
	f := Cur()
	if f == nil {
		if follow {
			return os.Stat(name)
		}
		return os.Lstat(name)
	}
	if dead() {
		return nil, errDead
	}
	simrt.IOPoint()
	op := "lstat"
	if follow {
		op = "stat"
	}
	_, _, n, err := f.walk(name, follow, 0)
	if err != nil {
		return nil, pe(op, name, err)
	}
	if n == nil {
		return nil, pe(op, name, syscall.ENOENT)
	}
	base := path.Base(name)
	return &info{name: base, n: n, size: int64(len(n.data))}, nil
}

func Stat(name string) (FileInfo, error)  { return statImpl(name, true) }
func Lstat(name string) (FileInfo, error) { return statImpl(name, false) }

func ReadFile(name string) ([]byte, error) {
	f := Cur()
	if f == nil {
		return os.ReadFile(name)
	}
	if dead() {
		return nil, errDead
	}
	simrt.IOPoint()
	f.op("readfile", name)
	_, _, n, err := f.walk(name, true, 0)
	if err != nil {
		return nil, pe("open", name, err)
	}
	if n == nil {
		return nil, pe("open", name, syscall.ENOENT)
	}
	if n.dir {
		return nil, pe("read", name, syscall.EISDIR)
	}
	return append([]byte(nil), n.data...), nil
}

func WriteFile(name string, data []byte, perm FileMode) error {
	if Cur() == nil {
		return os.WriteFile(name, data, perm)
	}
	fl, err := OpenFile(name, O_WRONLY|O_CREATE|O_TRUNC, perm)
	if err != nil {
		return err
	}
	_, err = fl.Write(data)
	if cerr := fl.Close(); err == nil {
		err = cerr
	}
	return err
}

func Rename(from, to string) error {
	f := Cur()
	if f == nil {
		return os.Rename(from, to)
	}
	if dead() {
		return errDead
	}
	simrt.IOPoint()
	out, _ := f.op("rename", from)
	if out.Err != nil {
		return &os.LinkError{Op: "rename", Old: from, New: to, Err: out.Err}
	}
	if simrt.Decide("disk.rename") {
		return &os.LinkError{Op: "rename", Old: from, New: to, Err: syscall.EIO}
	}
	return f.rename(from, to, false)
}

func Remove(name string) error {
	f := Cur()
	if f == nil {
		return os.Remove(name)
	}
	if dead() {
		return errDead
	}
	simrt.IOPoint()
	if out, _ := f.op("remove", name); out.Err != nil {
		return pe("remove", name, out.Err)
	}
	return f.remove(name, false)
}

func RemoveAll(name string) error {
	f := Cur()
	if f == nil {
		return os.RemoveAll(name)
	}
	if dead() {
		return errDead
	}
	parent, base, n, err := f.walk(name, false, 0)
	if err != nil || n == nil || parent == nil {
		return nil
	}
	delete(parent.children, base)
	return nil
}

func Mkdir(name string, perm FileMode) error {
	f := Cur()
	if f == nil {
		return os.Mkdir(name, perm)
	}
	if dead() {
		return errDead
	}
	parent, base, n, err := f.walk(name, false, 0)
	if err != nil || parent == nil {
		return pe("mkdir", name, syscall.ENOENT)
	}
	if n != nil {
		return pe("mkdir", name, syscall.EEXIST)
	}
	d := f.newInode(true)
	parent.children[base] = d
	f.journal = append(f.journal, metaOp{kind: "mkdir", to: name, ino: d})
	f.notify("create", f.resolveAlias(name))
	return nil
}

func MkdirAll(name string, perm FileMode) error {
	f := Cur()
	if f == nil {
		return os.MkdirAll(name, perm)
	}
	if dead() {
		return errDead
	}
	f.MkdirAllDirect(name)
	return nil
}

func MkdirTemp(dir, pattern string) (string, error) { return os.MkdirTemp(dir, pattern) }
func CreateTemp(dir, pattern string) (*File, error) {
	r, err := os.CreateTemp(dir, pattern)
	if err != nil {
		return nil, err
	}
	return &File{real: r}, nil
}

func Symlink(target, link string) error {
	f := Cur()
	if f == nil {
		return os.Symlink(target, link)
	}
	if dead() {
		return errDead
	}
	f.SymlinkDirect(target, link)
	return nil
}

func Readlink(name string) (string, error) {
	f := Cur()
	if f == nil {
		return os.Readlink(name)
	}
	if dead() {
		return "", errDead
	}
	simrt.IOPoint()
	_, _, n, err := f.walk(name, false, 0)
	if err != nil {
		return "", pe("readlink", name, err)
	}
	if n == nil {
		return "", pe("readlink", name, syscall.ENOENT)
	}
	if n.link == "" {
		return "", pe("readlink", name, syscall.EINVAL)
	}
	return n.link, nil
}

func Getwd() (string, error) {
	f := Cur()
	if f == nil {
		return os.Getwd()
	}
	return f.Cwd, nil
}

type dirEntry struct{ i *info }

func (d dirEntry) Name() string               { return d.i.name }
func (d dirEntry) IsDir() bool                { return d.i.n.dir }
func (d dirEntry) Type() fs.FileMode          { return d.i.Mode().Type() }
func (d dirEntry) Info() (fs.FileInfo, error) { return d.i, nil }

func ReadDir(name string) ([]DirEntry, error) {
	f := Cur()
	if f == nil {
		return os.ReadDir(name)
	}
	if dead() {
		return nil, errDead
	}
	_, _, n, err := f.walk(name, true, 0)
	if err != nil || n == nil {
		return nil, pe("open", name, syscall.ENOENT)
	}
	if !n.dir {
		return nil, pe("readdir", name, syscall.ENOTDIR)
	}
	var out []DirEntry
	for _, k := range sortedKeys(n.children) {
		c := n.children[k]
		out = append(out, dirEntry{&info{name: k, n: c, size: int64(len(c.data))}})
	}
	return out, nil
}

// WalkDir support for simfilepath.
func WalkTree(root string, fn func(p string, fi FileInfo, err error) error) error {
	f := Cur()
	_, _, n, err := f.walk(root, false, 0)
	if err != nil || n == nil {
		return fn(root, nil, pe("lstat", root, syscall.ENOENT))
	}
	var rec func(p string, n *inode) error
	rec = func(p string, n *inode) error {
		if err := fn(p, &info{name: path.Base(p), n: n, size: int64(len(n.data))}, nil); err != nil {
			if n.dir && err == fs.SkipDir {
				return nil
			}
			return err
		}
		if !n.dir {
			return nil
		}
		for _, k := range sortedKeys(n.children) {
			c := n.children[k]
			if c == nil {
				// renamed or removed by somebody else while the walk was under way: the real Walk reports the failed lstat
				if err := fn(path.Join(p, k), nil, pe("lstat", path.Join(p, k), syscall.ENOENT)); err != nil && err != fs.SkipDir {
					return err
				}
				continue
			}
			if err := rec(path.Join(p, k), c); err != nil {
				if err == fs.SkipDir {
					continue
				}
				return err
			}
		}
		return nil
	}
	err = rec(path.Clean(root), n)
	if err == fs.SkipDir || err == fs.SkipAll {
		return nil
	}
	return err
}

func sprintf(format string, a ...any) string { return fmt.Sprintf(format, a...) }
