// simgen rewrites the packages of a Go module in place ("simulation build") so
// that every source of nondeterminism goes through verif/simrt: goroutine
// creation, sync primitives, channels and select, time, atomics (as scheduling
// points), map iteration order, math/rand, runtime.Gosched/GOMAXPROCS,
// context deadlines, and - in the packages named by -io - os, path/filepath,
// inotify, the Kafka client, the fasthttp client and net.
//
// Nothing in here refers to file.d identifiers or line numbers: the rules are
// generic, so code added or moved by a later change is rewritten the same way.
//
// usage: simgen -dir <module root> [-io spec]... <package patterns...>
//
//	-io "<pkg path suffix>:<import path>=<replacement import path>,..."
package main

import (
	"bytes"
	"flag"
	"fmt"
	"go/ast"
	"go/format"
	"go/token"
	"go/types"
	"os"
	"sort"
	"strconv"
	"strings"

	"golang.org/x/tools/go/ast/astutil"
	"golang.org/x/tools/go/packages"
)

const rt = "simrt"
const rtPath = "verif/simrt"

var syncNames = map[string]bool{"Mutex": true, "RWMutex": true, "Cond": true, "NewCond": true, "WaitGroup": true, "Once": true, "Pool": true, "Locker": true, "Map": true}
var timeNames = map[string]bool{"Now": true, "Since": true, "Until": true, "Sleep": true, "After": true, "AfterFunc": true, "NewTimer": true, "NewTicker": true, "Tick": true, "Timer": true, "Ticker": true}
var randNames = map[string]string{"Int": "RandInt", "Intn": "RandIntn", "Int63": "RandInt63", "Int63n": "RandInt63n", "Int31": "RandInt31", "Int31n": "RandInt31n",
	"Uint32": "RandUint32", "Uint64": "RandUint64", "Float64": "RandFloat64", "Float32": "RandFloat32", "Perm": "RandPerm", "Shuffle": "RandShuffle", "Seed": "RandSeed", "NewSource": "RandNewSource"}
var ctxNames = map[string]string{"WithCancel": "ContextWithCancel", "WithTimeout": "ContextWithTimeout", "WithDeadline": "ContextWithDeadline"}

type ioRule struct {
	pkgSuffix string
	repl      map[string]string
}

type multi []string

func (m *multi) String() string     { return strings.Join(*m, ";") }
func (m *multi) Set(v string) error { *m = append(*m, v); return nil }

type rewriter struct {
	pkg   *packages.Package
	file  *ast.File
	used  bool
	nsel  int
	nrng  int
	stats map[string]int
	skip  map[ast.Node]bool
}

func main() {
	dir := flag.String("dir", ".", "module root")
	var ios multi
	flag.Var(&ios, "io", "pkgSuffix:import=replacement,...")
	skip := flag.String("skip", "", "comma separated package path substrings that are not rewritten")
	withTests := flag.Bool("tests", false, "also rewrite _test.go files (fidelity self-test: the repository's own tests run on the rewritten copy)")
	flag.Parse()
	var rules []ioRule
	for _, spec := range ios {
		i := strings.Index(spec, ":")
		if i < 0 {
			fatal("bad -io " + spec)
		}
		r := ioRule{pkgSuffix: spec[:i], repl: map[string]string{}}
		for _, kv := range strings.Split(spec[i+1:], ",") {
			p := strings.SplitN(kv, "=", 2)
			if len(p) != 2 {
				fatal("bad -io " + spec)
			}
			r.repl[p[0]] = p[1]
		}
		rules = append(rules, r)
	}
	cfg := &packages.Config{
		Mode:  packages.NeedName | packages.NeedFiles | packages.NeedSyntax | packages.NeedTypes | packages.NeedTypesInfo | packages.NeedImports | packages.NeedDeps | packages.NeedCompiledGoFiles,
		Dir:   *dir,
		Tests: *withTests,
	}
	pkgs, err := packages.Load(cfg, flag.Args()...)
	if err != nil {
		fatal(err.Error())
	}
	if *withTests {
		// a file belongs to the plain package and to its test variant: rewrite it once, with the
		// type information of the variant that also holds the test files
		sort.SliceStable(pkgs, func(i, j int) bool {
			return strings.Contains(pkgs[i].ID, "[") && !strings.Contains(pkgs[j].ID, "[")
		})
	}
	done := map[string]bool{}
	stats := map[string]int{}
	var skips []string
	if *skip != "" {
		skips = strings.Split(*skip, ",")
	}
	nfiles := 0
pkgLoop:
	for _, p := range pkgs {
		for _, sk := range skips {
			if strings.Contains(p.PkgPath, sk) {
				continue pkgLoop
			}
		}
		if len(p.Errors) > 0 {
			fmt.Fprintln(os.Stderr, "simgen: errors in", p.PkgPath, p.Errors)
			os.Exit(2)
		}
		for i, f := range p.Syntax {
			fname := p.CompiledGoFiles[i]
			if !strings.HasSuffix(fname, ".go") || (strings.HasSuffix(fname, "_test.go") && !*withTests) || !strings.HasPrefix(fname, *dir) {
				continue
			}
			if done[fname] {
				continue
			}
			done[fname] = true
			if len(f.Comments) > 0 && strings.HasPrefix(f.Comments[0].List[0].Text, "//simgen:skip") {
				continue
			}
			r := &rewriter{pkg: p, file: f, stats: stats, skip: map[ast.Node]bool{}}
			r.rewrite()
			// I/O import replacement
			for _, rule := range rules {
				if !strings.HasSuffix(p.PkgPath, rule.pkgSuffix) {
					continue
				}
				for _, imp := range f.Imports {
					path, _ := strconv.Unquote(imp.Path.Value)
					if to, ok := rule.repl[path]; ok {
						name := ""
						if imp.Name != nil {
							name = imp.Name.Name
						} else {
							name = defaultImportName(p, path)
						}
						imp.Path.Value = strconv.Quote(to)
						imp.Name = ast.NewIdent(name)
						stats["io:"+path]++
					}
				}
			}
			if r.used {
				astutil.AddNamedImport(p.Fset, f, rt, rtPath)
			}
			for _, imp := range []string{"sync", "time", "runtime", "math/rand", "context"} {
				if !astutil.UsesImport(f, imp) {
					astutil.DeleteImport(p.Fset, f, imp)
				}
			}
			var buf bytes.Buffer
			if err := format.Node(&buf, p.Fset, f); err != nil {
				fatal(fname + ": " + err.Error())
			}
			if err := os.WriteFile(fname, buf.Bytes(), 0o644); err != nil {
				fatal(err.Error())
			}
			nfiles++
		}
	}
	keys := make([]string, 0, len(stats))
	for k := range stats {
		keys = append(keys, k)
	}
	sort.Strings(keys)
	var sb strings.Builder
	for _, k := range keys {
		fmt.Fprintf(&sb, " %s=%d", k, stats[k])
	}
	fmt.Printf("simgen: %d packages, %d files:%s\n", len(pkgs), nfiles, sb.String())
}

func filepathBase(p string) string {
	if i := strings.LastIndex(p, "/"); i >= 0 {
		return p[i+1:]
	}
	return p
}

func fatal(msg string) {
	fmt.Fprintln(os.Stderr, "simgen:", msg)
	os.Exit(2)
}

func defaultImportName(p *packages.Package, path string) string {
	if ip, ok := p.Imports[path]; ok && ip.Name != "" {
		return ip.Name
	}
	parts := strings.Split(path, "/")
	return parts[len(parts)-1]
}

func (r *rewriter) typeOf(e ast.Expr) types.Type { return r.pkg.TypesInfo.TypeOf(e) }

func (r *rewriter) chanOf(e ast.Expr) *types.Chan {
	t := r.typeOf(e)
	if t == nil {
		return nil
	}
	c, _ := t.Underlying().(*types.Chan)
	return c
}

func (r *rewriter) isPkg(id *ast.Ident, path string) bool {
	if obj, ok := r.pkg.TypesInfo.Uses[id].(*types.PkgName); ok {
		return obj.Imported().Path() == path
	}
	return false
}

func (r *rewriter) sel(fn string) ast.Expr {
	r.used = true
	return &ast.SelectorExpr{X: ast.NewIdent(rt), Sel: ast.NewIdent(fn)}
}

func (r *rewriter) call(fn string, args ...ast.Expr) *ast.CallExpr {
	return &ast.CallExpr{Fun: r.sel(fn), Args: args}
}

func dirSuffix(c *types.Chan) string {
	if c == nil {
		return ""
	}
	switch c.Dir() {
	case types.RecvOnly:
		return "RO"
	case types.SendOnly:
		return "SO"
	}
	return ""
}

func isAtomicPkg(path string) bool {
	return path == "sync/atomic" || path == "go.uber.org/atomic"
}

// atomicRecv reports whether call is a method call on a sync/atomic or
// go.uber.org/atomic type, or a sync/atomic function with a pointer argument.
func (r *rewriter) atomicKind(call *ast.CallExpr) (method bool, fn bool) {
	se, ok := call.Fun.(*ast.SelectorExpr)
	if !ok {
		return
	}
	if id, ok := se.X.(*ast.Ident); ok {
		if r.isPkg(id, "sync/atomic") {
			if len(call.Args) > 0 {
				if _, isFn := r.pkg.TypesInfo.Uses[se.Sel].(*types.Func); isFn {
					return false, true
				}
			}
			return
		}
	}
	selInfo, ok := r.pkg.TypesInfo.Selections[se]
	if !ok || selInfo.Kind() != types.MethodVal {
		return
	}
	f, ok := selInfo.Obj().(*types.Func)
	if !ok || f.Pkg() == nil || !isAtomicPkg(f.Pkg().Path()) {
		return
	}
	return true, false
}

func (r *rewriter) rewrite() {
	pos := func(n ast.Node) string {
		p := r.pkg.Fset.Position(n.Pos())
		parts := strings.Split(p.Filename, "/")
		name := parts[len(parts)-1]
		if len(parts) > 1 {
			name = parts[len(parts)-2] + "/" + name
		}
		return name + ":" + strconv.Itoa(p.Line)
	}
	info := r.pkg.TypesInfo
	astutil.Apply(r.file, func(c *astutil.Cursor) bool {
		if n, ok := c.Node().(*ast.SelectStmt); ok {
			// the communication operations of a select are translated together
			// with the statement (post-order), not one by one
			for _, cl := range n.Body.List {
				switch s := cl.(*ast.CommClause).Comm.(type) {
				case *ast.ExprStmt:
					r.skip[ast.Unparen(s.X)] = true
				case *ast.AssignStmt:
					r.skip[ast.Unparen(s.Rhs[0])] = true
				case *ast.SendStmt:
					r.skip[s] = true
				}
			}
		}
		return true
	}, func(c *astutil.Cursor) bool {
		if r.skip[c.Node()] {
			return true
		}
		switch n := c.Node().(type) {
		case *ast.SelectStmt:
			c.Replace(r.rewriteSelect(n))
			r.stats["select"]++
		case *ast.SelectorExpr:
			if id, ok := n.X.(*ast.Ident); ok {
				switch {
				case r.isPkg(id, "sync") && syncNames[n.Sel.Name]:
					id.Name = rt
					r.used = true
					r.stats["sync."+n.Sel.Name]++
				case r.isPkg(id, "time") && timeNames[n.Sel.Name]:
					id.Name = rt
					r.used = true
					r.stats["time."+n.Sel.Name]++
				case r.isPkg(id, "runtime") && n.Sel.Name == "Gosched":
					id.Name = rt
					n.Sel.Name = "Yield"
					r.used = true
					r.stats["runtime.Gosched"]++
				case r.isPkg(id, "math/rand") && randNames[n.Sel.Name] != "":
					id.Name = rt
					n.Sel.Name = randNames[n.Sel.Name]
					r.used = true
					r.stats["rand"]++
				case r.isPkg(id, "context") && ctxNames[n.Sel.Name] != "":
					id.Name = rt
					n.Sel.Name = ctxNames[n.Sel.Name]
					r.used = true
					r.stats["context."+n.Sel.Name]++
				}
			}
		case *ast.CallExpr:
			if id, ok := n.Fun.(*ast.Ident); ok {
				if _, isBuiltin := info.Uses[id].(*types.Builtin); isBuiltin {
					switch id.Name {
					case "close", "len", "cap":
						if len(n.Args) == 1 {
							if ch := r.chanOf(n.Args[0]); ch != nil {
								fn := map[string]string{"close": "Close", "len": "Len", "cap": "Cap"}[id.Name]
								c.Replace(r.call(fn+dirSuffix(ch), n.Args[0]))
								r.stats[id.Name+"(ch)"]++
							}
						}
					case "make":
						if len(n.Args) >= 1 {
							if t := r.typeOf(n.Args[0]); t != nil {
								if ch, ok := t.Underlying().(*types.Chan); ok && ch.Dir() == types.SendRecv {
									c.Replace(r.call("Reg", n))
									r.stats["make(chan)"]++
								}
							}
						}
					}
				}
			}
			if se, ok := n.Fun.(*ast.SelectorExpr); ok {
				if id, ok := se.X.(*ast.Ident); ok && r.isPkg(id, "runtime") && se.Sel.Name == "GOMAXPROCS" {
					c.Replace(r.call("GOMAXPROCS"))
					r.stats["runtime.GOMAXPROCS"]++
					return true
				}
				method, fn := r.atomicKind(n)
				if method {
					recv := se.X
					if _, isPtr := r.typeOf(recv).Underlying().(*types.Pointer); isPtr {
						se.X = r.call("P", recv)
					} else {
						se.X = r.call("P", &ast.UnaryExpr{Op: token.AND, X: recv})
					}
					r.stats["atomic"]++
				} else if fn {
					if _, isPtr := r.typeOf(n.Args[0]).Underlying().(*types.Pointer); isPtr {
						n.Args[0] = r.call("P", n.Args[0])
						r.stats["atomic"]++
					}
				}
			}
		case *ast.SendStmt:
			ch := r.chanOf(n.Chan)
			c.Replace(&ast.ExprStmt{X: &ast.CallExpr{Fun: r.call("SendTo"+dirSuffix(ch), n.Chan), Args: []ast.Expr{n.Value}}})
			r.stats["send"]++
		case *ast.UnaryExpr:
			if n.Op == token.ARROW {
				ch := r.chanOf(n.X)
				two := false
				switch p := c.Parent().(type) {
				case *ast.AssignStmt:
					two = len(p.Lhs) == 2 && len(p.Rhs) == 1
				case *ast.ValueSpec:
					two = len(p.Names) == 2 && len(p.Values) == 1
				}
				if two {
					c.Replace(r.call("Recv2"+dirSuffix(ch), n.X))
				} else {
					c.Replace(r.call("Recv"+dirSuffix(ch), n.X))
				}
				r.stats["recv"]++
			}
		case *ast.GoStmt:
			var pre []ast.Stmt
			call := n.Call
			for i, a := range call.Args {
				if _, lit := a.(*ast.BasicLit); lit {
					continue
				}
				tmp := ast.NewIdent(fmt.Sprintf("_simarg%d", i))
				pre = append(pre, &ast.AssignStmt{Lhs: []ast.Expr{tmp}, Tok: token.DEFINE, Rhs: []ast.Expr{a}})
				call.Args[i] = tmp
			}
			// method value receiver / function value are evaluated at the go statement too
			if se, ok := call.Fun.(*ast.SelectorExpr); ok {
				if selInfo, ok := info.Selections[se]; ok && selInfo.Kind() == types.MethodVal {
					tmp := ast.NewIdent("_simfn")
					pre = append(pre, &ast.AssignStmt{Lhs: []ast.Expr{tmp}, Tok: token.DEFINE, Rhs: []ast.Expr{se}})
					call.Fun = tmp
				}
			}
			body := []ast.Stmt{&ast.ExprStmt{X: call}}
			goCall := r.call("Go", &ast.BasicLit{Kind: token.STRING, Value: strconv.Quote(pos(n))},
				&ast.FuncLit{Type: &ast.FuncType{Params: &ast.FieldList{}}, Body: &ast.BlockStmt{List: body}})
			pre = append(pre, &ast.ExprStmt{X: goCall})
			c.Replace(&ast.BlockStmt{List: pre})
			r.stats["go"]++
		case *ast.RangeStmt:
			if ch := r.chanOf(n.X); ch != nil {
				// for v := range ch {B}  =>  for { v, ok := Recv2(ch); if !ok {break}; B }
				var v ast.Expr = ast.NewIdent("_")
				if n.Key != nil {
					v = n.Key
				}
				okID := ast.NewIdent("_simok")
				var recv ast.Stmt
				rcall := r.call("Recv2"+dirSuffix(ch), n.X)
				if n.Tok == token.ASSIGN {
					// existing variable: declare ok separately
					recv = &ast.BlockStmt{}
					decl := &ast.DeclStmt{Decl: &ast.GenDecl{Tok: token.VAR, Specs: []ast.Spec{&ast.ValueSpec{Names: []*ast.Ident{okID}, Type: ast.NewIdent("bool")}}}}
					asg := &ast.AssignStmt{Lhs: []ast.Expr{v, okID}, Tok: token.ASSIGN, Rhs: []ast.Expr{rcall}}
					brk := &ast.IfStmt{Cond: &ast.UnaryExpr{Op: token.NOT, X: okID}, Body: &ast.BlockStmt{List: []ast.Stmt{&ast.BranchStmt{Tok: token.BREAK}}}}
					n.Body.List = append([]ast.Stmt{decl, asg, brk}, n.Body.List...)
				} else {
					recv = &ast.AssignStmt{Lhs: []ast.Expr{v, okID}, Tok: token.DEFINE, Rhs: []ast.Expr{rcall}}
					brk := &ast.IfStmt{Cond: &ast.UnaryExpr{Op: token.NOT, X: okID}, Body: &ast.BlockStmt{List: []ast.Stmt{&ast.BranchStmt{Tok: token.BREAK}}}}
					n.Body.List = append([]ast.Stmt{recv, brk}, n.Body.List...)
				}
				c.Replace(&ast.ForStmt{For: n.For, Body: n.Body})
				r.stats["range-chan"]++
				return true
			}
			if t := r.typeOf(n.X); t != nil {
				if _, isMap := t.Underlying().(*types.Map); isMap {
					r.rewriteMapRange(c, n)
				}
			}
		}
		return true
	})
}

// rewriteMapRange turns   for k, v := range m { B }   into
//
//	for _, k := range simrt.Keys(m) { v, ok := m[k]; if !ok { continue }; B }
//
// (deterministic order; entries deleted during the iteration are skipped, as
// the language requires). A map expression that is not a plain identifier or
// field selection is bound to a temporary first.
func (r *rewriter) rewriteMapRange(c *astutil.Cursor, n *ast.RangeStmt) {
	isBlank := func(e ast.Expr) bool {
		if e == nil {
			return true
		}
		id, ok := e.(*ast.Ident)
		return ok && id.Name == "_"
	}
	if isBlank(n.Key) && isBlank(n.Value) {
		return
	}
	if n.Tok != token.DEFINE {
		fatal("range over map with '=' is not supported: " + r.pkg.Fset.Position(n.Pos()).String())
	}
	r.nrng++
	m := n.X
	var bind ast.Stmt
	if !pureExpr(m) {
		if _, labeled := c.Parent().(*ast.LabeledStmt); labeled {
			fatal("labeled range over a computed map is not supported: " + r.pkg.Fset.Position(n.Pos()).String())
		}
		tmp := ast.NewIdent(fmt.Sprintf("_simmap%d", r.nrng))
		bind = &ast.AssignStmt{Lhs: []ast.Expr{tmp}, Tok: token.DEFINE, Rhs: []ast.Expr{m}}
		m = tmp
	}
	keyExpr := n.Key
	if isBlank(keyExpr) {
		keyExpr = ast.NewIdent(fmt.Sprintf("_simk%d", r.nrng))
	}
	okID := ast.NewIdent(fmt.Sprintf("_simhas%d", r.nrng))
	var val ast.Expr = ast.NewIdent("_")
	if !isBlank(n.Value) {
		val = n.Value
	}
	pre := []ast.Stmt{
		&ast.AssignStmt{Lhs: []ast.Expr{val, okID}, Tok: token.DEFINE, Rhs: []ast.Expr{&ast.IndexExpr{X: m, Index: keyExpr}}},
		&ast.IfStmt{Cond: &ast.UnaryExpr{Op: token.NOT, X: okID}, Body: &ast.BlockStmt{List: []ast.Stmt{&ast.BranchStmt{Tok: token.CONTINUE}}}},
	}
	n.Key = ast.NewIdent("_")
	n.Value = keyExpr
	n.X = r.call("Keys", m)
	n.Body.List = append(pre, n.Body.List...)
	if bind != nil {
		c.Replace(&ast.BlockStmt{List: []ast.Stmt{bind, n}})
	}
	r.stats["range-map"]++
}

func pureExpr(e ast.Expr) bool {
	switch x := e.(type) {
	case *ast.Ident:
		return true
	case *ast.SelectorExpr:
		return pureExpr(x.X)
	case *ast.ParenExpr:
		return pureExpr(x.X)
	case *ast.StarExpr:
		return pureExpr(x.X)
	case *ast.IndexExpr:
		return pureExpr(x.X) && pureExpr(x.Index)
	case *ast.BasicLit:
		return true
	}
	return false
}

func (r *rewriter) rewriteSelect(n *ast.SelectStmt) ast.Stmt {
	r.nsel++
	selID := ast.NewIdent(fmt.Sprintf("_simsel%d", r.nsel))
	hasDefault := "false"
	var cases []ast.Expr
	var clauses []ast.Stmt
	idx := 0
	usesSel := false
	for _, cl := range n.Body.List {
		cc := cl.(*ast.CommClause)
		if cc.Comm == nil {
			hasDefault = "true"
			clauses = append(clauses, &ast.CaseClause{List: []ast.Expr{&ast.BasicLit{Kind: token.INT, Value: "-1"}}, Body: cc.Body})
			continue
		}
		var pre []ast.Stmt
		switch s := cc.Comm.(type) {
		case *ast.ExprStmt:
			u, ok := ast.Unparen(s.X).(*ast.UnaryExpr)
			if !ok {
				fatal("unknown select recv shape")
			}
			cases = append(cases, r.call("CaseRecv"+dirSuffix(r.chanOf(u.X)), u.X))
		case *ast.AssignStmt:
			u, ok := ast.Unparen(s.Rhs[0]).(*ast.UnaryExpr)
			if !ok {
				fatal("unknown select assign shape")
			}
			chx := u.X
			// the channel expression is evaluated once: bind it if it is not a plain identifier/selector
			cases = append(cases, r.call("CaseRecv"+dirSuffix(r.chanOf(chx)), chx))
			lhs := s.Lhs
			if len(lhs) == 1 {
				lhs = []ast.Expr{lhs[0], ast.NewIdent("_")}
			}
			allBlank := true
			for _, l := range lhs {
				if id, ok := l.(*ast.Ident); !ok || id.Name != "_" {
					allBlank = false
				}
			}
			if !allBlank {
				usesSel = true
				pre = append(pre, &ast.AssignStmt{Lhs: lhs, Tok: s.Tok, Rhs: []ast.Expr{r.call("SelValue"+dirSuffix(r.chanOf(chx)), selID, chx)}})
			}
		case *ast.SendStmt:
			ch := r.chanOf(s.Chan)
			cases = append(cases, &ast.CallExpr{Fun: r.call("CaseSendTo"+dirSuffix(ch), s.Chan), Args: []ast.Expr{s.Value}})
		default:
			fatal(fmt.Sprintf("unknown select comm %T", s))
		}
		clauses = append(clauses, &ast.CaseClause{List: []ast.Expr{&ast.BasicLit{Kind: token.INT, Value: strconv.Itoa(idx)}}, Body: append(pre, cc.Body...)})
		idx++
	}
	clauses = append(clauses, &ast.CaseClause{Body: []ast.Stmt{&ast.ExprStmt{X: &ast.CallExpr{Fun: ast.NewIdent("panic"), Args: []ast.Expr{&ast.BasicLit{Kind: token.STRING, Value: `"simrt: bad select index"`}}}}}})
	_ = usesSel
	if r.nsel > 0 {
		r.used = true
	}
	args := append([]ast.Expr{ast.NewIdent(hasDefault)}, cases...)
	return &ast.SwitchStmt{
		Switch: n.Select,
		Init:   &ast.AssignStmt{Lhs: []ast.Expr{selID}, Tok: token.DEFINE, Rhs: []ast.Expr{r.call("Select", args...)}},
		Tag:    &ast.SelectorExpr{X: selID, Sel: ast.NewIdent("Index")},
		Body:   &ast.BlockStmt{List: clauses},
	}
}
