package throttle

// VerifForgetAll empties the package-level table of limiter maps (one entry per
// pipeline name, never removed: in a real process it holds as many entries as
// there are configured pipelines; a simulation worker starts thousands).
func VerifForgetAll() {
	limitersMu.Lock()
	for k := range limiters {
		delete(limiters, k)
	}
	limitersMu.Unlock()
}
