package file

// Add-only white-box accessors for the verification harness (copied into the
// scratch copy only, never into /repo). They assemble the real offsetDB /
// jobProvider pieces without the watcher so that the save/load protocol can be
// driven directly; no logic of file.d lives here.

import (
	"io"
	"os"
	"sync"
	"syscall"
	"time"

	"github.com/ozontech/file.d/logger"
	"github.com/ozontech/file.d/metric"
	"github.com/ozontech/file.d/pipeline"
	"github.com/prometheus/client_golang/prometheus"
	"go.uber.org/atomic"
)

type VerifOffsets struct {
	jp *jobProvider
}

// VerifNewOffsets builds a jobProvider that has only what commit() and the
// offsets savers need. sync: persistence_mode sync (save inside commit).
func VerifNewOffsets(offsetsFile string, syncMode bool) *VerifOffsets {
	cfg := &Config{OffsetsFile: offsetsFile, OffsetsFileTmp: offsetsFile + ".atomic"}
	if syncMode {
		cfg.PersistenceMode_ = persistenceModeSync
	} else {
		cfg.PersistenceMode_ = persistenceModeAsync
	}
	ctl := metric.NewCtl("verif", prometheus.NewRegistry(), 0, 0)
	jp := &jobProvider{
		config:                         cfg,
		offsetDB:                       newOffsetDB(cfg.OffsetsFile, cfg.OffsetsFileTmp),
		jobs:                           make(map[pipeline.SourceID]*Job),
		jobsMu:                         &sync.RWMutex{},
		jobsDone:                       atomic.NewInt32(0),
		offsetsCommitted:               &atomic.Int64{},
		stopSaveOffsetsCh:              make(chan bool, 1),
		logger:                         logger.Instance,
		possibleOffsetCorruptionMetric: ctl.RegisterCounter("verif_corruption", ""),
	}
	return &VerifOffsets{jp: jp}
}

func (v *VerifOffsets) AddJob(sourceID uint64, inode uint64, filename string) {
	v.jp.jobsMu.Lock()
	v.jp.jobs[pipeline.SourceID(sourceID)] = &Job{inode: inodeID(inode), sourceID: pipeline.SourceID(sourceID), filename: filename, mu: &sync.Mutex{}, isDone: true}
	v.jp.jobsMu.Unlock()
}

// Commit calls the real jobProvider.commit.
func (v *VerifOffsets) Commit(e *pipeline.Event) { v.jp.commit(e) }

// Save calls the real offsetDB.save.
func (v *VerifOffsets) Save() { v.jp.offsetDB.save(v.jp.jobs, v.jp.jobsMu) }

// RunAsyncSaver runs the real saveOffsetsCyclic loop (call it with go).
func (v *VerifOffsets) RunAsyncSaver(interval int64) {
	v.jp.saveOffsetsCyclic(timeDuration(interval))
}

func (v *VerifOffsets) StopAsyncSaver() { v.jp.stopSaveOffsetsCh <- true }

type VerifLoaded struct {
	Filename string
	Streams  map[string]int64
}

// Load runs the real offsetDB.load on a fresh offsetDB.
func VerifLoadOffsets(offsetsFile string) (map[uint64]VerifLoaded, error) {
	db := newOffsetDB(offsetsFile, offsetsFile+".atomic")
	offs, err := db.load()
	if err != nil {
		return nil, err
	}
	out := map[uint64]VerifLoaded{}
	for id, io := range offs {
		l := VerifLoaded{Filename: io.filename, Streams: map[string]int64{}}
		for s, o := range io.streams {
			l.Streams[string(s)] = o
		}
		out[uint64(id)] = l
	}
	return out, nil
}

// VerifJobs returns the provider's current job table (for harness probes).
func VerifJobs(p *Plugin) map[uint64]map[string]int64 {
	out := map[uint64]map[string]int64{}
	jp := p.jobProvider
	jp.jobsMu.RLock()
	defer jp.jobsMu.RUnlock()
	for id, job := range jp.jobs {
		m := map[string]int64{}
		job.mu.Lock()
		for _, so := range job.offsets {
			m[string(so.Stream)] = so.Offset
		}
		job.mu.Unlock()
		out[uint64(id)] = m
	}
	return out
}

type durationAlias = time.Duration

func timeDuration(ns int64) durationAlias { return durationAlias(ns) }

// VerifSourceID derives the source id of a plain (non-symlinked) file from its inode.
func VerifSourceID(ino uint64) uint64 {
	return uint64(sourceIDByStat(verifStat{ino: ino}, ""))
}

type verifStat struct{ ino uint64 }

func (verifStat) Name() string       { return "" }
func (verifStat) Size() int64        { return 0 }
func (verifStat) Mode() os.FileMode  { return 0 }
func (verifStat) ModTime() time.Time { return time.Time{} }
func (verifStat) IsDir() bool        { return false }
func (v verifStat) Sys() any         { return &syscall.Stat_t{Ino: v.ino} }

// VerifForgetAll empties the process-global registries of the package (offsets
// files in use, /info and /reset handlers by pipeline name). A worker process of
// the simulation starts thousands of plugin instances; in a real process these
// maps hold one entry per configured pipeline for the life of the process.
func VerifForgetAll() {
	for k := range offsetFiles {
		delete(offsetFiles, k)
	}
	for k := range InfoRegistryInstance.plugins {
		delete(InfoRegistryInstance.plugins, k)
	}
	for k := range ResetterRegistryInstance.pipelineToResetter {
		delete(ResetterRegistryInstance.pipelineToResetter, k)
	}
}

// VerifReadOffset returns the position up to which the job of the given inode has read its file and whether
// such a job exists: the larger of job.curOffset (updated at the end of a read pass only) and the position of
// the job's file descriptor (a worker in the middle of a pass, e.g. parked in Pipeline.In on a full pool, has
// read ahead of curOffset).
func VerifReadOffset(p *Plugin, ino uint64) (int64, bool) {
	jp := p.jobProvider
	jp.jobsMu.RLock()
	defer jp.jobsMu.RUnlock()
	for _, job := range jp.jobs {
		if uint64(job.inode) == ino {
			job.mu.Lock()
			off := job.curOffset
			if !job.isCompressed && job.file != nil {
				if pos, err := job.file.Seek(0, io.SeekCurrent); err == nil && pos > off {
					off = pos
				}
			}
			job.mu.Unlock()
			return off, true
		}
	}
	return 0, false
}

// VerifTreatedAsLz4: does the plugin read a file of this name through the lz4
// decoder (the answer depends on the machine's MIME tables)?
func VerifTreatedAsLz4(name string) bool {
	return isCompressed(getMimeType(name)) && getMimeType(name) == "application/x-lz4"
}
