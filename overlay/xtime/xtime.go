//simgen:skip
package xtime

// Verification overlay (replaces xtime.go in the scratch copy only): inside a
// simulation the coarse clock is the simulated wall clock truncated to the
// update interval; outside one it behaves like the original (a ticker
// goroutine started from init).

import (
	"sync/atomic"
	"time"

	"verif/simrt"
)

func init() {
	SetNowTime(time.Now().UnixNano())
	ticker := time.NewTicker(updateTimeInterval)
	go func() {
		for t := range ticker.C {
			if !simrt.InSim() {
				nowTime.Store(t.UnixNano())
			}
		}
	}()
}

const updateTimeInterval = time.Second

var nowTime atomic.Int64

func GetInaccurateUnixNano() int64 {
	if simrt.InSim() {
		return simrt.Now().Truncate(updateTimeInterval).UnixNano()
	}
	return nowTime.Load()
}

func GetInaccurateTime() time.Time {
	return time.Unix(0, GetInaccurateUnixNano())
}

// SetNowTime sets the current time (tests only).
func SetNowTime(unixNano int64) {
	nowTime.Store(unixNano)
}
