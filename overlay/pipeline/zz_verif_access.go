package pipeline

// Add-only white-box accessors for the verification harness (copied into the
// scratch copy only, never into /repo). No logic of file.d lives here.

func VerifBatchEvents(b *Batch) []*Event { return b.events }
func VerifBatchSeq(b *Batch) int64       { return b.seq }
func VerifBatchStatus(b *Batch) int      { return int(b.status) }
func VerifOffsetsCurrent(o Offsets) int64 { return o.current }
func VerifEventStream(e *Event) StreamName { return e.streamName }
func VerifEventKind(e *Event) int         { return int(e.kind) }

// VerifPool is a thin exported wrapper over the unexported pool interface.
type VerifPool struct{ p pool }

func VerifNewPool(kind PoolType, capacity, avgSize int) *VerifPool {
	switch kind {
	case PoolTypeStd:
		return &VerifPool{p: newEventPool(capacity, avgSize)}
	default:
		return &VerifPool{p: newLowMemoryEventPool(capacity)}
	}
}
func (v *VerifPool) Get(size int) *Event { return v.p.get(size) }
func (v *VerifPool) Back(e *Event)       { v.p.back(e) }
func (v *VerifPool) InUse() int64        { return v.p.inUse() }
func (v *VerifPool) Waiters() int64      { return v.p.waiters() }
func (v *VerifPool) Stop()               { v.p.stop() }

func VerifInUse(p *Pipeline) int64   { return p.eventPool.inUse() }
func VerifWaiters(p *Pipeline) int64 { return p.eventPool.waiters() }
func VerifDump(p *Pipeline) string   { return p.streamer.dump() }
func VerifChargedBlocked(p *Pipeline) (charged, blocked int) {
	p.streamer.chargedMu.Lock()
	charged = len(p.streamer.charged)
	p.streamer.chargedMu.Unlock()
	p.streamer.blockedMu.Lock()
	blocked = len(p.streamer.blocked)
	p.streamer.blockedMu.Unlock()
	return
}

// VerifNewEvent builds a regular event as the pipeline would hand it to
// InputPlugin.Commit (harness for the offsets protocol).
func VerifNewEvent(sourceID SourceID, stream StreamName, offset int64, seq uint64) *Event {
	return &Event{SourceID: sourceID, streamName: stream, Offset: offset, SeqID: seq, SourceName: "verif"}
}

// VerifCharged returns the number of charged streams (streams with pending events that no
// processor has attached yet) and the condition variable the idle processors sleep on. Meant
// to be read when no goroutine is running (the simulation's idle callback).
func VerifCharged(p *Pipeline) (int, any) {
	return len(p.streamer.charged), p.streamer.chargedCond
}
