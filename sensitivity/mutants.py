#!/usr/bin/env python3
"""Hand-written sensitivity mutants (the 'sensitivity targets' of DESIGN.md section 5).
Each is applied to /repo (never committed), the listed quick checks are run, and /repo is restored.
usage: mutants.py [name-substring ...]     results -> /verif/sensitivity/results.jsonl"""
import json, os, subprocess, sys, time

REPO = "/repo"
M = []
def mut(name, props, file, old, new, note=""):
    M.append(dict(name=name, props=props, file=file, old=old, new=new, note=note))

# ---- C08 / C01 / C02: batcher
mut("batch-commit-before-out", ["C01", "C08"], "pipeline/batch.go",
    "\t\tif batch.hasIterableEvents {\n\t\t\tnow := time.Now()\n\t\t\tb.opts.OutFn(&data, batch)\n\t\t\tb.batchOutFnSeconds.Observe(time.Since(now).Seconds())\n\t\t}\n\n\t\tstatus := b.commitBatch(batch)\n",
    "\t\tevents := append([]*Event(nil), batch.events...)\n\t\tstatus := b.commitBatch(batch)\n\t\tbatch.events = events\n\t\tif batch.hasIterableEvents {\n\t\t\tnow := time.Now()\n\t\t\tb.opts.OutFn(&data, batch)\n\t\t\tb.batchOutFnSeconds.Observe(time.Since(now).Seconds())\n\t\t}\n",
    "commit issued before the send")
mut("batch-no-commitseq-wait", ["C01", "C02", "C08"], "pipeline/batch.go",
    "\tfor b.commitSeq != batchSeq {\n\t\tb.cond.Wait()\n\t}\n", "\t_ = batchSeq\n", "batches commit in completion order")
mut("batch-size-off-by-one", ["C08"], "pipeline/batch.go", "l >= b.maxSizeCount", "l > b.maxSizeCount")
mut("batch-heartbeat-removed", ["C08", "C04"], "pipeline/batch.go", "\tgo b.heartbeat()\n", "\t_ = b.heartbeat\n")
mut("batch-broadcast-to-signal", ["C08", "C04"], "pipeline/batch.go", "\tb.cond.Broadcast()\n\tb.seqMu.Unlock()", "\tb.cond.Signal()\n\tb.seqMu.Unlock()")
mut("batch-commitseq-inc-before-wait", ["C08", "C02"], "pipeline/batch.go",
    "\tfor b.commitSeq != batchSeq {\n\t\tb.cond.Wait()\n\t}\n\tb.commitSeq++\n", "\tb.commitSeq++\n\tfor b.commitSeq-1 < batchSeq {\n\t\tb.cond.Wait()\n\t}\n")
# ---- C09
mut("retry-one-attempt-fewer", ["C09"], "pipeline/backoff.go", "numTries > b.backoffOpts.AttemptNum", "numTries >= b.backoffOpts.AttemptNum-1")
mut("retry-no-reset-on-deadqueue", ["C09"], "pipeline/backoff.go", "\t\t\t\tbatch.reset()\n\t\t\t\tbatch.status = BatchStatusInDeadQueue", "\t\t\t\tbatch.status = BatchStatusInDeadQueue")
mut("retry-error-callback-per-attempt", ["C09"], "pipeline/backoff.go",
    "\t\tnext := exponentionalBackoff.NextBackOff()\n", "\t\tif numTries > 0 && b.backoffOpts.AttemptNum > 1 && !b.isDeadQueueAvailable {\n\t\t\tb.onRetryError(err, batch.events)\n\t\t}\n\t\tnext := exponentionalBackoff.NextBackOff()\n")
# ---- C01/C02/C04: streams, processor
mut("discard-notifies-input", ["C01", "C02"], "pipeline/processor.go",
    "\t\t\t// can't notify input here, because previous events may delay, and we'll get offset sequence corruption.\n\t\t\tp.finalize(event, false, true)\n\t\t\tp.actionWatcher.setEventAfter(index, event, eventStatusDiscarded)",
    "\t\t\tp.finalize(event, true, true)\n\t\t\tp.actionWatcher.setEventAfter(index, event, eventStatusDiscarded)")
mut("stream-put-no-signal", ["C04", "C15"], "pipeline/stream.go", "\t\tif !s.isAttached {\n\t\t\ts.streamer.makeCharged(s)\n\t\t}\n\t\ts.cond.Signal()\n", "\t\tif !s.isAttached {\n\t\t\ts.streamer.makeCharged(s)\n\t\t}\n")
mut("trydetach-no-recharge", ["C04"], "pipeline/stream.go", "\tif s.first != nil {\n\t\ts.streamer.makeCharged(s)\n\t}\n}", "}\n")
mut("makecharged-no-signal", ["C04"], "pipeline/streamer.go", "\ts.charged = append(s.charged, stream)\n\ts.chargedCond.Signal()\n", "\ts.charged = append(s.charged, stream)\n")
mut("trydetach-ignores-away", ["C01", "C02", "C04"], "pipeline/stream.go", "\tif s.awaySeq != s.commitSeq.Load() {\n\t\treturn\n\t}\n\n\ts.isAttached = false", "\ts.isAttached = false")
mut("stdpool-back-no-broadcast", ["C04"], "pipeline/event.go", "\tp.inUseEvents.Dec()\n\tp.getCond.Broadcast()\n}\n\nfunc (p *eventPool) wakeupWaiters", "\tp.inUseEvents.Dec()\n}\n\nfunc (p *eventPool) wakeupWaiters")
mut("lowmem-capacity-off-by-one", ["C05"], "pipeline/event.go", "\tif inUse <= p.capacity {\n\t\te := getPool.Get().(*Event)", "\tif inUse <= p.capacity+1 {\n\t\te := getPool.Get().(*Event)")
mut("in-decode-error-no-back", ["C05", "C04"], "pipeline/pipeline.go", "\t\t// Can't process event, return to pool.\n\t\tp.eventPool.back(event)\n\t\treturn EventSeqIDError\n\t}\n\n\tif len(meta) > 0", "\t\treturn EventSeqIDError\n\t}\n\n\tif len(meta) > 0")
# ---- C03 / C06 / C07: file input
mut("passevent-ge", ["C03"], "plugin/input/file/file.go", "pass := event.Offset > savedOffset", "pass := event.Offset > savedOffset+64")
mut("resume-from-max-offset", ["C03"], "plugin/input/file/provider.go", "\t\tminOffset := int64(math.MaxInt64)\n\t\tfor _, offset := range offsets.streams {\n\t\t\tif offset < minOffset {\n\t\t\t\tminOffset = offset\n\t\t\t}\n\t\t}\n\t\tjob.seek(minOffset, io.SeekStart, \"job initialization\")",
    "\t\tminOffset := int64(0)\n\t\tfor _, offset := range offsets.streams {\n\t\t\tif offset > minOffset {\n\t\t\t\tminOffset = offset\n\t\t\t}\n\t\t}\n\t\tjob.seek(minOffset, io.SeekStart, \"job initialization\")")
mut("worker-scanned-off-by-one", ["C06", "C03"], "plugin/input/file/worker.go", "\t\t\t\tscanned += pos + 1\n", "\t\t\t\tscanned += pos\n")
mut("worker-forgets-accum-reset", ["C06"], "plugin/input/file/worker.go", "\t\t\t\t// restore the line buffer\n\t\t\t\taccumBuf = accumBuf[:0]\n", "\t\t\t\t// restore the line buffer\n\t\t\t\tif len(line) > 1 {\n\t\t\t\t\taccumBuf = accumBuf[:0]\n\t\t\t\t}\n")
mut("worker-loses-tail", ["C06", "C03"], "plugin/input/file/worker.go", "\t\tjob.tail = append(job.tail[:0], accumBuf...)\n", "\t\tif len(accumBuf) <= 6 {\n\t\t\tjob.tail = append(job.tail[:0], accumBuf...)\n\t\t} else {\n\t\t\tjob.tail = job.tail[:0]\n\t\t}\n")
mut("offsets-no-fsync", ["C07"], "plugin/input/file/offset.go", "\terr = file.Sync()\n", "\terr = nil\n")
mut("offsets-write-in-place", ["C07"], "plugin/input/file/offset.go", "\tfile, err := os.OpenFile(string(tmpWithRandom), os.O_RDWR|os.O_CREATE|os.O_TRUNC, 0o600)", "\ttmpWithRandom = []byte(o.curOffsetsFile)\n\tfile, err := os.OpenFile(string(tmpWithRandom), os.O_RDWR|os.O_CREATE|os.O_TRUNC, 0o600)")
mut("offsets-yaml-no-fsync", ["C07"], "offset/offset.go", "\treturn file.Sync()\n", "\treturn nil\n")
# ---- C10
mut("kafka-offset-plus-two", ["C10"], "plugin/input/kafka/kafka.go", "\t\tOffset: offset + 1,", "\t\tOffset: offset + 2,")
mut("kafka-partition-mask", ["C10"], "plugin/input/kafka/kafka.go", "partition = int32(sourceID & 0xFFFF)", "partition = int32(sourceID & 0x7FFF)")
mut("kafka-epoch-dropped", ["C10"], "plugin/input/kafka/kafka.go", "\tepoch := int32(assembledOffset & 0xFFFF)", "\tepoch := int32(assembledOffset & 0xFF)")
# ---- C11
mut("http-last-line-needs-newline", ["C11"], "plugin/input/http/http.go", "\tif len(eventBuff) > 0 {\n\t\teventBuff = p.processChunk(sourceID, readBuff[:0], eventBuff, true, meta)\n\t}", "\tif len(eventBuff) > 0 && eventBuff[len(eventBuff)-1] == '\\r' {\n\t\teventBuff = p.processChunk(sourceID, readBuff[:0], eventBuff, true, meta)\n\t}")
mut("http-carry-not-reset", ["C11"], "plugin/input/http/http.go", "\t\t\t_ = p.controller.In(sourceID, \"http\", pipeline.NewOffsets(int64(pos), nil), eventBuff, true, meta)\n\t\t\teventBuff = eventBuff[:0]\n\t\t} else {", "\t\t\t_ = p.controller.In(sourceID, \"http\", pipeline.NewOffsets(int64(pos), nil), eventBuff, true, meta)\n\t\t\tif pos > 0 {\n\t\t\t\teventBuff = eventBuff[:0]\n\t\t\t}\n\t\t} else {")
mut("http-eof-with-data-dropped", ["C11"], "plugin/input/http/http.go", "\t\tif n == 0 && err == io.EOF {\n\t\t\tbreak\n\t\t}", "\t\tif err == io.EOF && n < 2 {\n\t\t\tbreak\n\t\t}")
# ---- C15
mut("join-no-flush-on-missing-field", ["C15"], "plugin/action/join/join.go", "\tif node == nil {\n\t\tif p.isJoining {\n\t\t\tp.flush()\n\t\t}\n\t\treturn pipeline.ActionPass\n\t}", "\tif node == nil {\n\t\treturn pipeline.ActionPass\n\t}")
mut("processor-instantget-when-busy", ["C15", "C04"], "pipeline/processor.go", "\t\tevent = stream.blockGet()\n", "\t\tevent = stream.instantGet()\n\t\tif event == nil {\n\t\t\treturn false, nil\n\t\t}\n")
mut("timeout-to-last-action", ["C15", "C04"], "pipeline/processor.go", "\t\t\tevent.action = p.busyAction(lastAction)", "\t\t\tevent.action = lastAction")
# ---- C16
mut("throttle-compare-before-add", ["C16"], "plugin/action/throttle/in_memory_limiter.go", "\tisAllowed := l.buckets.get(index, distrIdx) <= limit\n", "\tisAllowed := l.buckets.get(index, distrIdx) <= limit+1\n")
mut("throttle-rebuild-no-reset", ["C16"], "plugin/action/throttle/buckets.go", "\t\t// reset old buckets\n\t\tresetFn(n)\n", "\t\t// reset old buckets\n\t\tif n < meta.count {\n\t\t\tresetFn(n)\n\t\t}\n")
mut("throttle-past-to-min", ["C16"], "plugin/action/throttle/buckets.go", "\tif id < meta.minID || id > meta.maxID {\n\t\tid = meta.maxID\n\t}", "\tif id < meta.minID {\n\t\tid = meta.minID\n\t} else if id > meta.maxID {\n\t\tid = meta.maxID\n\t}")
# ---- C19
mut("es-split-middle-off", ["C19"], "plugin/output/elasticsearch/elasticsearch.go", "\t\t\tstatusCode, err = p.sendSplit(middle, right, begin, data)\n", "\t\t\tstatusCode, err = p.sendSplit(middle+1, right, begin, data)\n")
mut("splunk-root-not-reset", ["C19"], "plugin/output/splunk/splunk.go", "\t\toutBuf = root.Encode(outBuf)\n\t\t_ = root.DecodeString(\"{}\")\n", "\t\toutBuf = root.Encode(outBuf)\n")
mut("kafka-out-shared-buffer", ["C19"], "plugin/output/kafka/kafka.go", "\t\toutBuf, start = event.Encode(outBuf)\n", "\t\toutBuf, start = event.Encode(outBuf[:0])\n")
mut("loki-shares-event-nodes", ["C19"], "plugin/output/loki/loki.go", "\t\tdataArr.AddElementNoAlloc(root).MutateToJSON(root, event.Root.EncodeToString())\n", "\t\tdataArr.AddElementNoAlloc(root).MutateToNode(event.Root.Node)\n")
mut("gelf-formats-in-place", ["C19"], "plugin/output/gelf/gelf.go", "\t\tencodeBuf = p.formatEvent(encodeBuf, formatted)\n\t\toutBuf, _ = formatted.Encode(outBuf)\n", "\t\tencodeBuf = p.formatEvent(encodeBuf, event)\n\t\toutBuf, _ = event.Encode(outBuf)\n")
mut("gelf-maintenance-nil-client", ["C19"], "plugin/output/gelf/gelf.go", "\tif data.gelf == nil {\n\t\t// not connected: the last connect or send failed\n\t\treturn\n\t}\n", "")
mut("gelf-newline-terminator", ["C19"], "plugin/output/gelf/gelf.go", "\t\toutBuf = append(outBuf, byte(0))\n", "\t\toutBuf = append(outBuf, byte('\\n'))\n")
mut("gelf-level-off", ["C19"], "plugin/output/gelf/gelf.go", "\t\t\tparsedLevel = pipeline.LevelInformational\n", "\t\t\tparsedLevel = pipeline.LevelDebug\n")
mut("loki-empty-line-skipped", ["C19"], "plugin/output/loki/loki.go", "\t\tvalues = append(values, logLine)\n", "\t\tif logMsg != \"\" {\n\t\t\tvalues = append(values, logLine)\n\t\t}\n")
mut("file-seal-before-rename-swap", ["C19"], "plugin/output/file/file.go", "\tp.rename(newFileName)\n\toldFile := p.file\n", "\toldFile := p.file\n\t_ = oldFile.Truncate(info.Size())\n\tp.rename(newFileName)\n")
# ---- C20
mut("cut-one-byte-short", ["C20"], "pipeline/pipeline.go", "\t\tbytes = bytes[:p.settings.MaxEventSize]\n", "\t\tbytes = bytes[:p.settings.MaxEventSize-1]\n")
mut("size-limit-ge", ["C20"], "pipeline/pipeline.go", "length > p.settings.MaxEventSize {", "length >= p.settings.MaxEventSize {")
mut("antispam-exception-after-threshold", ["C20"], "pipeline/antispam/antispammer.go", "\tif x == int32(threshold) {\n", "\tif x == int32(threshold)-1 && threshold > 2 {\n")

def sh(cmd, **kw):
    return subprocess.run(cmd, shell=True, stdout=subprocess.PIPE, stderr=subprocess.STDOUT, **kw)

def main():
    sel = sys.argv[1:]
    out = open("/verif/sensitivity/results.jsonl", "a")
    if sh("git -C /repo diff --quiet").returncode != 0:
        print("/repo is dirty"); sys.exit(2)
    for m in M:
        if sel and not any(s in m["name"] for s in sel):
            continue
        p = os.path.join(REPO, m["file"])
        src = open(p).read()
        if m["old"] not in src:
            print("SKIP %s: pattern not found" % m["name"]); continue
        open(p, "w").write(src.replace(m["old"], m["new"], 1))
        try:
            b = sh("cd /repo && GOFLAGS=-mod=mod GOPROXY=off go build ./%s/" % os.path.dirname(m["file"]))
            if b.returncode != 0:
                print("SKIP %s: does not compile: %s" % (m["name"], b.stdout.decode()[-300:])); continue
            for prop in m["props"]:
                t0 = time.time()
                r = sh("/verif/bin/vcheck %s --tier quick --budget 20" % prop)
                txt = r.stdout.decode()
                sig = ""
                for line in txt.splitlines():
                    if line.startswith("violation signature="):
                        sig = line.split()[1].split("=", 1)[1]
                rec = dict(mutant=m["name"], property=prop, exit=r.returncode, caught=(r.returncode == 1), signature=sig, wall_s=round(time.time() - t0, 1), note=m["note"])
                print(json.dumps(rec)); out.write(json.dumps(rec) + "\n"); out.flush()
        finally:
            sh("git -C /repo checkout -- .")

main()
