// Package h7join is the multi-line reassembly harness (H1 variant): a real
// pipeline with the real join, join_template or k8s multiline action, several
// sources and streams over several processors, pauses shorter and much longer
// than the stream time-out. Decides C15 against a per-stream reference
// reassembly.
package h7join

import (
	"encoding/json"
	"fmt"
	"github.com/ozontech/file.d/pipeline/doif"
	"math/rand/v2"
	"os"
	"regexp"
	"sort"
	"strconv"
	"strings"
	"time"

	"github.com/ozontech/file.d/fd"
	"github.com/ozontech/file.d/logger"
	"github.com/ozontech/file.d/pipeline"
	_ "github.com/ozontech/file.d/plugin/action/join"
	_ "github.com/ozontech/file.d/plugin/action/join_template"
	"github.com/ozontech/file.d/plugin/action/join_template/template"
	"github.com/ozontech/file.d/plugin/input/k8s"
	"github.com/ozontech/file.d/plugin/input/k8s/meta"
	"github.com/ozontech/file.d/zz_verifharness/core"
	"github.com/ozontech/file.d/zz_verifharness/h1pipe"
	"github.com/prometheus/client_golang/prometheus"
	corev1 "k8s.io/api/core/v1"
	"verif/simrt"
)

func init() { core.Register(&H{}) }

type Line struct {
	ID     int           `json:"id"`
	Source int           `json:"src"`
	Stream string        `json:"stream"`
	Msg    string        `json:"msg"`
	NoMsg  bool          `json:"no_msg,omitempty"`
	NotStr bool          `json:"not_string,omitempty"` // the field is a number
	Pause  time.Duration `json:"pause,omitempty"`
	Lvl    string        `json:"lvl,omitempty"` // field the action's match condition looks at
	// Tick: instead of a fixed pause the line is sent when the clock reaches the first 200 ms mark (the period of the
	// streamer's heart-beat, counted from the pipeline's start) that lies more than one time-out ahead, plus TickOff:
	// the put then races with the heart-beat that delivers the stream's time-out
	Drop    bool          `json:"drop,omitempty"` // discarded by the action behind the multi-line action (DropAfter)
	Tick    bool          `json:"tick,omitempty"`
	TickOff time.Duration `json:"tick_off,omitempty"`
}

type Cfg struct {
	Sim          simrt.Config  `json:"sim"`
	Action       string        `json:"action"` // join | join_template | k8s
	Start        string        `json:"start,omitempty"`
	Continue     string        `json:"continue,omitempty"`
	Negate       bool          `json:"negate,omitempty"`
	Template     string        `json:"template,omitempty"`
	MaxSize      int           `json:"max_event_size"`
	EventTimeout time.Duration `json:"event_timeout"`
	SingleProc   bool          `json:"single_proc"`
	Capacity     int           `json:"capacity"`
	Pool         string        `json:"pool"`
	Readers      [][]Line      `json:"readers"`
	MatchLvl     string        `json:"match_lvl,omitempty"`   // the action is applied only to events with lvl == this value
	MatchDoIf    bool          `json:"match_do_if,omitempty"` // the condition is given as do_if instead of match_fields
	DropAfter    bool          `json:"drop_after,omitempty"`  // a discarding action follows the multi-line action
	LazySink     int           `json:"lazy_sink,omitempty"`   // >0: the output reads events only when that many have gathered (or 10 ms later)
}

func (c *Cfg) SimCfg() *simrt.Config { return &c.Sim }

type H struct{}

func (h *H) Name() string     { return "h7join" }
func (h *H) Props() []string  { return []string{"C15"} }
func (h *H) NewCfg() core.Cfg { return &Cfg{} }

var goPanicLines = []string{"panic: boom", "fatal error: all goroutines are asleep", "goroutine 17 [running]:", "main.main()", "\t/app/main.go:42 +0x1d", "created by main.run in goroutine 1", "", "   ", "regular log line", "2024 INFO started", "[signal SIGSEGV: segmentation violation]", "http: panic serving 10.0.0.1", "exit status 2"}
var csLines = []string{"Unhandled exception. System.Exception: x", "   at Foo.Bar() in /src/a.cs:line 1", " ---> System.IO.IOException: y", "   --- End of inner exception stack trace ---", "plain line", "System.NullReferenceException: z", "INFO done"}
var raceLines = []string{"WARNING: DATA RACE", "Write at 0x00c000012345 by goroutine 7:", "  main.f()", "Previous read at 0x00c0 by goroutine 8:", "==================", "plain", "Goroutine 7 (running) created at:", ""}

func (h *H) Gen(rng *rand.Rand, tier, prop string) core.Cfg {
	c := &Cfg{}
	c.Sim = simrt.Config{PSwitch: core.Pick(rng, 0.01, 0.05, 0.2), StepCost: time.Duration(core.Between(rng, 0, 3)) * time.Microsecond, MaxSteps: 2_000_000, Horizon: 2 * time.Hour,
		Faults: map[string]float64{}, Boost: map[string]float64{}, Procs: core.Pick(rng, 1, 1, 2)}
	if core.Chance(rng, 0.3) {
		c.Sim.Boost["cond"] = 3
	}
	c.Action = core.Pick(rng, "join", "join", "join_template", "k8s")
	c.EventTimeout = core.DurBetween(rng, 50*time.Millisecond, 2*time.Second)
	c.SingleProc = core.Chance(rng, 0.3)
	c.Capacity = core.Pick(rng, 4, 16, 64)
	c.Pool = core.Pick(rng, "std", "low_memory")
	var vocab []string
	switch c.Action {
	case "join":
		c.Start = core.Pick(rng, "^S", "^(S|T)", "start")
		c.Continue = core.Pick(rng, "^C", "^\\s", "^(C|D)")
		c.Negate = core.Chance(rng, 0.2)
		if core.Chance(rng, 0.3) {
			c.MaxSize = core.Between(rng, 3, 30)
		}
		vocab = []string{"S1", "Sx", "T9", "C1", "Cc", "D2", " indented", "\ttab", "plain", "start here", "P", "", "Czz", "S"}
	case "join_template":
		c.Template = core.Pick(rng, "go_panic", "cs_exception", "go_data_race")
		if core.Chance(rng, 0.2) {
			c.MaxSize = core.Between(rng, 20, 80)
		}
		switch c.Template {
		case "go_panic":
			vocab = goPanicLines
		case "cs_exception":
			vocab = csLines
		default:
			vocab = raceLines
		}
	case "k8s":
		vocab = []string{"part ", "chunk", "x", "end\n", "done\n", "\n", "more ", "fin\n"}
	}
	if c.Action != "k8s" && core.Chance(rng, 0.25) {
		c.MatchLvl = "e"
		c.MatchDoIf = core.Chance(rng, 0.5)
	}
	c.DropAfter = c.Action != "k8s" && core.Chance(rng, 0.3)
	if core.Chance(rng, 0.4) {
		c.LazySink = core.Between(rng, 2, 4)
	}
	nReaders := core.Between(rng, 1, 3)
	nSources := core.Between(rng, nReaders, nReaders+1)
	streams := []string{"stdout", "stderr"}[:core.Between(rng, 1, 2)]
	n := core.Between(rng, 3, 40)
	if tier == "thorough" {
		n = core.Between(rng, 3, 150)
	}
	c.Readers = make([][]Line, nReaders)
	for i := 0; i < n; i++ {
		src := rng.IntN(nSources)
		l := Line{ID: i + 1, Source: src + 1, Stream: streams[rng.IntN(len(streams))], Msg: vocab[rng.IntN(len(vocab))]}
		if c.Action != "k8s" {
			if core.Chance(rng, 0.05) {
				l.NoMsg = true
			} else if core.Chance(rng, 0.03) {
				l.NotStr = true
			}
			if l.Msg != "" && core.Chance(rng, 0.3) {
				l.Msg += strconv.Itoa(l.ID) // make values distinguishable
			}
		} else if !strings.HasSuffix(l.Msg, "\n") {
			l.Msg += strconv.Itoa(l.ID) + " "
		} else {
			l.Msg = strconv.Itoa(l.ID) + l.Msg
		}
		if c.MatchLvl != "" {
			l.Lvl = core.Pick(rng, "e", "e", "e", "i", "")
			// a start line always matches the condition: whether a NON-matching start line is shown to the
			// action depends on whether the previous run was ended by it or by a time-out just before it,
			// which the harness cannot tell apart when the gap is about one time-out long
			if cl := newClassifier(c); !l.NoMsg && !l.NotStr && cl.first(l.Msg) {
				l.Lvl = c.MatchLvl
			}
		}
		if c.DropAfter && core.Chance(rng, 0.3) {
			l.Drop = true
		}
		switch {
		case core.Chance(rng, 0.6):
		case core.Chance(rng, 0.15):
			l.Tick = true
			l.TickOff = time.Duration(rng.Int64N(int64(600*time.Microsecond))) - 300*time.Microsecond
		case core.Chance(rng, 0.6):
			l.Pause = core.DurBetween(rng, time.Millisecond, c.EventTimeout/2)
		default:
			l.Pause = core.DurBetween(rng, c.EventTimeout, 4*c.EventTimeout+time.Second)
		}
		c.Readers[src%nReaders] = append(c.Readers[src%nReaders], l)
	}
	return c
}

func (h *H) Shrink(cc core.Cfg) []core.Cfg {
	c := cc.(*Cfg)
	var out []core.Cfg
	clone := func() *Cfg {
		d := *c
		d.Readers = make([][]Line, len(c.Readers))
		for i := range c.Readers {
			d.Readers[i] = append([]Line(nil), c.Readers[i]...)
		}
		return &d
	}
	for i := range c.Readers {
		n := len(c.Readers[i])
		if n == 0 {
			continue
		}
		d := clone()
		d.Readers[i] = d.Readers[i][:n/2]
		out = append(out, d)
		d = clone()
		d.Readers[i] = d.Readers[i][n/2:]
		out = append(out, d)
		if n <= 10 {
			for j := 0; j < n; j++ {
				d := clone()
				d.Readers[i] = append(d.Readers[i][:j:j], d.Readers[i][j+1:]...)
				out = append(out, d)
			}
		}
		for j := 0; j < n && n <= 10; j++ {
			if c.Readers[i][j].Pause != 0 {
				d := clone()
				d.Readers[i][j].Pause = 0
				out = append(out, d)
			}
		}
	}
	if !c.SingleProc {
		d := clone()
		d.SingleProc = true
		out = append(out, d)
	}
	return out
}

// ---- plugins ----

type dbgAction struct{ inner pipeline.ActionPlugin }

func (d *dbgAction) Start(c pipeline.AnyConfig, p *pipeline.ActionPluginParams) { d.inner.Start(c, p) }
func (d *dbgAction) Stop()                                                      { d.inner.Stop() }
func (d *dbgAction) Do(e *pipeline.Event) pipeline.ActionResult {
	desc := "TIMEOUT"
	if !e.IsTimeoutKind() {
		desc = e.Root.EncodeToString()
	}
	res := d.inner.Do(e)
	fmt.Printf("[%v g%d] Do(%s src=%d) -> %d\n", simrt.SimNow(), simrt.CurG(), desc, e.SourceID, res)
	return res
}

type inPlugin struct{}

func (inPlugin) Start(pipeline.AnyConfig, *pipeline.InputPluginParams) {}
func (inPlugin) Stop()                                                 {}
func (inPlugin) Commit(*pipeline.Event)                                {}
func (inPlugin) PassEvent(*pipeline.Event) bool                        { return true }

type outRec struct {
	id   int
	msg  string
	has  bool
	step int
}

type sinkOut struct {
	ctl   pipeline.OutputPluginController
	outs  []outRec
	field string
	// lazy > 0: events are kept until that many have gathered (or the flusher's next round) and only then read
	lazy    int
	pending []pendItem
}

func (s *sinkOut) Start(_ pipeline.AnyConfig, p *pipeline.OutputPluginParams) { s.ctl = p.Controller }
func (s *sinkOut) Stop()                                                      {}
func (s *sinkOut) Out(e *pipeline.Event) {
	if s.lazy > 0 {
		// like a batching output: the event is looked at (encoded) only when its batch is flushed, so it has to
		// stay intact while the processor goes on with the next lines
		s.pending = append(s.pending, pendItem{e: e})
		if len(s.pending) >= s.lazy {
			s.flush()
		}
		return
	}
	s.record(e)
	s.ctl.Commit(e)
}

// pendItem: an event waiting in the lazy sink, or the note of an event that the action behind the multi-line
// action discarded (taken at once - the event is gone afterwards - but kept in its place in the order)
type pendItem struct {
	e    *pipeline.Event
	note *outRec
}

func (s *sinkOut) flush() {
	batch := s.pending
	s.pending = nil
	for _, it := range batch {
		if it.note != nil {
			s.outs = append(s.outs, *it.note)
			continue
		}
		s.record(it.e)
	}
	for _, it := range batch {
		if it.e != nil {
			s.ctl.Commit(it.e)
		}
	}
}

// dropAfter is an action placed behind the multi-line action in part of the runs: it discards events that carry
// "drop":"1" - after noting them exactly as the sink would, so the oracle sees the sequence of events that left the
// multi-line action whether or not a later action lets them through.
type dropAfter struct{ s *sinkOut }

func (a *dropAfter) Start(pipeline.AnyConfig, *pipeline.ActionPluginParams) {}
func (a *dropAfter) Stop()                                                  {}
func (a *dropAfter) Do(e *pipeline.Event) pipeline.ActionResult {
	if e.IsTimeoutKind() {
		return pipeline.ActionDiscard
	}
	if n := e.Root.Dig("drop"); n != nil && n.AsString() == "1" {
		if a.s.lazy > 0 {
			before := len(a.s.outs)
			a.s.record(e)
			note := a.s.outs[before]
			a.s.outs = a.s.outs[:before]
			a.s.pending = append(a.s.pending, pendItem{note: &note})
		} else {
			a.s.record(e)
		}
		return pipeline.ActionDiscard
	}
	return pipeline.ActionPass
}

func (s *sinkOut) record(e *pipeline.Event) {
	r := outRec{id: -1, step: simrt.Steps()}
	// decode the encoded event with an independent parser (and without touching the nodes)
	var doc map[string]any
	if err := json.Unmarshal([]byte(e.Root.EncodeToString()), &doc); err != nil {
		r.msg = "<<invalid json: " + e.Root.EncodeToString() + ">>"
	} else {
		if v, ok := doc["id"].(float64); ok {
			r.id = int(v)
		}
		switch v := doc[s.field].(type) {
		case string:
			r.msg, r.has = v, true
		case float64:
			r.msg, r.has = strconv.Itoa(int(v)), true
		}
	}
	s.outs = append(s.outs, r)
}

type obs struct {
	line  Line
	callT time.Duration
	retT  time.Duration
	seq   uint64
}

var seq int

const (
	cid = "4e0301b633eaa2bfdcafdeba59ba0c72a3815911a6a820bf273534b0f32d98e0"
)

func lineJSON(c *Cfg, l Line) []byte {
	var sb strings.Builder
	fmt.Fprintf(&sb, `{"id":%d,"stream":%q`, l.ID, l.Stream)
	field := "msg"
	if c.Action == "k8s" {
		field = "log"
		sb.WriteString(`,"k8s_namespace":"ns","k8s_pod":"pod-1","k8s_container_id":"` + cid + `","k8s_container":"app"`)
	}
	if l.Lvl != "" {
		fmt.Fprintf(&sb, `,"lvl":%q`, l.Lvl)
	}
	if l.Drop {
		sb.WriteString(`,"drop":"1"`)
	}
	switch {
	case l.NoMsg:
	case l.NotStr:
		fmt.Fprintf(&sb, `,%q:%d`, field, 12345)
	default:
		fmt.Fprintf(&sb, `,%q:%q`, field, l.Msg)
	}
	sb.WriteString("}\n")
	return []byte(sb.String())
}

func (h *H) Run(cc core.Cfg, sim *simrt.Sim) *core.Outcome {
	cfg := cc.(*Cfg)
	o := &core.Outcome{NonTrivial: map[string]bool{}, Probes: map[string]int{}}
	field := "msg"
	if cfg.Action == "k8s" {
		field = "log"
	}
	out := &sinkOut{field: field, lazy: cfg.LazySink}
	var all []*obs
	verdict := false
	reason := sim.Run(func() {
		seq++
		name := fmt.Sprintf("h7_%d", seq)
		settings := &pipeline.Settings{
			Capacity: cfg.Capacity, MaintenanceInterval: 5 * time.Second, EventTimeout: cfg.EventTimeout,
			Antispam:     pipeline.AntispamSettings{Threshold: -1, MaintenanceInterval: 5 * time.Second},
			AvgEventSize: 128, StreamField: "stream", Decoder: "json", Pool: pipeline.PoolType(cfg.Pool),
			Metric: &pipeline.MetricSettings{HoldDuration: time.Minute},
		}
		p := pipeline.New(name, settings, prometheus.NewRegistry(), h1pipe.QuietLogger())
		if cfg.SingleProc {
			p.DisableParallelism()
		}
		p.SetInput(&pipeline.InputPluginInfo{PluginStaticInfo: &pipeline.PluginStaticInfo{Type: "in"}, PluginRuntimeInfo: &pipeline.PluginRuntimeInfo{Plugin: inPlugin{}}})
		info := &pipeline.ActionPluginStaticInfo{PluginStaticInfo: &pipeline.PluginStaticInfo{Type: cfg.Action}}
		switch cfg.Action {
		case "join", "join_template":
			static, err := fd.DefaultPluginRegistry.Get(pipeline.PluginKindAction, cfg.Action)
			if err != nil {
				panic(err)
			}
			js := fmt.Sprintf(`{"field":"msg","start":"/%s/","continue":"/%s/","negate":%v,"max_event_size":%d}`, cfg.Start, strings.ReplaceAll(cfg.Continue, `\`, `\\`), cfg.Negate, cfg.MaxSize)
			if cfg.Action == "join_template" {
				js = fmt.Sprintf(`{"field":"msg","templates":[%q],"max_event_size":%d}`, cfg.Template, cfg.MaxSize)
			}
			conf, err := pipeline.GetConfig(static, []byte(js), map[string]int{"gomaxprocs": 1, "capacity": cfg.Capacity})
			if err != nil {
				panic(fmt.Sprintf("%s config: %v (%s)", cfg.Action, err, js))
			}
			info.Config = conf
			info.Factory = static.Factory
			if cfg.MatchLvl != "" && cfg.MatchDoIf {
				ch, err := doif.NewFromMap(map[string]any{"op": "equal", "field": "lvl", "values": []any{cfg.MatchLvl}})
				if err != nil {
					panic(err)
				}
				info.DoIfChecker = ch
			} else if cfg.MatchLvl != "" {
				info.MatchConditions = pipeline.MatchConditions{{Field: []string{"lvl"}, Values: []string{cfg.MatchLvl}}}
				info.MatchMode = pipeline.MatchModeAnd
			}
		case "k8s":
			meta.DisableMetaUpdates = true
			meta.EnableGatherer(logger.Instance)
			pod := &corev1.Pod{}
			pod.Namespace, pod.Name = "ns", "pod-1"
			pod.Status.ContainerStatuses = []corev1.ContainerStatus{{Name: "app", ContainerID: "containerd://" + cid}}
			meta.PutMeta(pod)
			meta.SelfNodeName = "node-1"
			conf := &k8s.Config{SplitEventSize: 1 << 30}
			info.Config = conf
			info.Factory = func() (pipeline.AnyPlugin, pipeline.AnyConfig) { return &k8s.MultilineAction{}, conf }
		}
		if os.Getenv("VERIF_DEBUG") != "" {
			inner := info.Factory
			info.Factory = func() (pipeline.AnyPlugin, pipeline.AnyConfig) {
				pl, c := inner()
				return &dbgAction{inner: pl.(pipeline.ActionPlugin)}, c
			}
		}
		p.AddAction(info)
		if cfg.DropAfter {
			p.AddAction(&pipeline.ActionPluginStaticInfo{PluginStaticInfo: &pipeline.PluginStaticInfo{Type: "dropafter", Factory: func() (pipeline.AnyPlugin, pipeline.AnyConfig) { return &dropAfter{s: out}, nil }}})
		}
		p.SetOutput(&pipeline.OutputPluginInfo{PluginStaticInfo: &pipeline.PluginStaticInfo{Type: "out"}, PluginRuntimeInfo: &pipeline.PluginRuntimeInfo{Plugin: out}})
		t0 := simrt.SimNow()
		p.Start()
		if cfg.LazySink > 0 {
			simrt.Go("sink-flusher", func() {
				for {
					simrt.Sleep(10 * time.Millisecond)
					if len(out.pending) > 0 {
						out.flush()
					}
				}
			})
		}
		var wg simrt.WaitGroup
		for rd, lines := range cfg.Readers {
			lines := lines
			wg.Add(1)
			simrt.Go(fmt.Sprintf("reader%d", rd), func() {
				defer wg.Done()
				for _, l := range lines {
					if l.Pause > 0 {
						simrt.Sleep(l.Pause)
					}
					if l.Tick {
						const beat = 200 * time.Millisecond
						at := ((simrt.SimNow()-t0+cfg.EventTimeout)/beat+1)*beat + t0 + l.TickOff
						if d := at - simrt.SimNow(); d > 0 {
							simrt.Sleep(d)
						}
					}
					ob := &obs{line: l, callT: simrt.SimNow()}
					all = append(all, ob)
					ob.seq = p.In(pipeline.SourceID(l.Source), "src"+strconv.Itoa(l.Source), pipeline.NewOffsets(int64(l.ID)*10, nil), lineJSON(cfg, l), false, nil)
					ob.retT = simrt.SimNow()
				}
			})
		}
		wg.Wait()
		// silence: every held run must be flushed by the stream time-out
		simrt.Sleep(3*cfg.EventTimeout + 10*time.Second)
		verdict = true
		simrt.Stop("done")
	})
	o.EndReason = reason
	if reason == "died" {
		o.Violate("C15", "died", "pipeline died: %s", sim.Died())
		return o
	}
	if !verdict {
		o.Inconclusive = "ended by " + reason
		return o
	}
	h.check(cfg, all, out.outs, o)
	return o
}

// classifier of the join family
type classifier struct {
	first func(string) bool
	next  func(string) bool
}

func newClassifier(cfg *Cfg) classifier {
	switch cfg.Action {
	case "join":
		sre := regexp.MustCompile(cfg.Start)
		cre := regexp.MustCompile(cfg.Continue)
		return classifier{first: sre.MatchString, next: func(s string) bool { return cre.MatchString(s) != cfg.Negate }}
	case "join_template":
		t, err := template.InitTemplate(cfg.Template)
		if err != nil {
			panic(err)
		}
		return classifier{first: t.StartCheck, next: func(s string) bool { return t.ContinueCheck(s) != t.Negate }}
	}
	return classifier{}
}

func (h *H) check(cfg *Cfg, all []*obs, outs []outRec, o *core.Outcome) {
	// per (source, stream) input sequences in read order
	type skey struct {
		src    int
		stream string
	}
	ins := map[skey][]*obs{}
	idStream := map[int]skey{}
	for _, ob := range all {
		if ob.seq == 0 {
			o.Violate("C15", "input-refused", "In refused line %d", ob.line.ID)
			return
		}
		k := skey{ob.line.Source, ob.line.Stream}
		ins[k] = append(ins[k], ob)
		idStream[ob.line.ID] = k
	}
	// outputs per stream in output order (an output event belongs to the stream of its id)
	os := map[skey][]outRec{}
	for _, r := range outs {
		k, ok := idStream[r.id]
		if !ok {
			o.Violate("C15", "unknown-output-event", "output event with unknown id %d msg %q", r.id, r.msg)
			return
		}
		os[k] = append(os[k], r)
	}
	var keys []skey
	for k := range ins {
		keys = append(keys, k)
	}
	sort.Slice(keys, func(i, j int) bool {
		return keys[i].src < keys[j].src || keys[i].src == keys[j].src && keys[i].stream < keys[j].stream
	})
	cl := newClassifier(cfg)
	nontrivial := false
	for _, k := range keys {
		in, out := ins[k], os[k]
		desc := func() string {
			var sb strings.Builder
			fmt.Fprintf(&sb, "source %d stream %s, action %s", k.src, k.stream, cfg.Action)
			if cfg.Action == "join" {
				fmt.Fprintf(&sb, " start=/%s/ continue=/%s/ negate=%v", cfg.Start, cfg.Continue, cfg.Negate)
			} else if cfg.Action == "join_template" {
				fmt.Fprintf(&sb, " template=%s", cfg.Template)
			}
			fmt.Fprintf(&sb, " max_event_size=%d time-out=%v; read:", cfg.MaxSize, cfg.EventTimeout)
			for _, ob := range in {
				fmt.Fprintf(&sb, " [%d %q @%v]", ob.line.ID, lineVal(ob.line), ob.callT)
			}
			sb.WriteString("; output:")
			for _, r := range out {
				fmt.Fprintf(&sb, " [%d %q]", r.id, r.msg)
			}
			return sb.String()
		}
		cutAllowed := func(q int) bool { // between in[q] and in[q+1]
			return in[q+1].retT-in[q].callT >= cfg.EventTimeout
		}
		j := 0 // next output
		i := 0
		fail := func(sig, format string, a ...any) {
			o.Violate("C15", sig, format+"; %s", append(a, desc())...)
		}
		if cfg.Action == "k8s" {
			// runs of partial chunks closed by a chunk ending in a newline; the event of the closing chunk carries the concatenation
			for i < len(in) {
				m := i
				for m < len(in) && !strings.HasSuffix(in[m].line.Msg, "\n") {
					m++
				}
				if m == len(in) {
					// unterminated tail: nothing may be emitted for it
					break
				}
				if m > i {
					nontrivial = true
				}
				if j >= len(out) {
					fail("missing-output", "no output for the container log line closed by id %d", in[m].line.ID)
					return
				}
				if out[j].id != in[m].line.ID {
					fail("wrong-event-order", "expected the event of closing chunk id %d, got id %d", in[m].line.ID, out[j].id)
					return
				}
				want := ""
				for q := i; q <= m; q++ {
					want += in[q].line.Msg
				}
				if out[j].msg != want {
					// which suffix of the run is it?
					lost := -1
					for q := i + 1; q <= m; q++ {
						suffix := ""
						for z := q; z <= m; z++ {
							suffix += in[z].line.Msg
						}
						if out[j].msg == suffix {
							lost = q
						}
					}
					if lost > 0 && cutAllowed(lost-1) {
						fail("k8s-partial-chunks-dropped-on-stream-time-out", "the chunks before id %d were dropped: log is %q, expected %q", in[lost].line.ID, out[j].msg, want)
					} else {
						fail("wrong-concatenation", "log of id %d is %q, expected %q", out[j].id, out[j].msg, want)
					}
					return
				}
				j++
				i = m + 1
			}
			if j < len(out) {
				fail("extra-output", "unexpected extra output event id %d %q", out[j].id, out[j].msg)
				return
			}
			continue
		}
		joinVal := func(l Line) (string, bool, bool) { // value, present, isString
			if l.NoMsg {
				return "", false, false
			}
			if l.NotStr {
				return "12345", true, false
			}
			return l.Msg, true, true
		}
		for i < len(in) {
			v, has, isStr := joinVal(in[i].line)
			matches := cfg.MatchLvl == "" || in[i].line.Lvl == cfg.MatchLvl
			// outside a run an event that does not match the condition skips the action; inside a run
			// (the action is busy) every event of the stream is shown to it
			isStart := matches && has && isStr && cl.first(v)
			if j >= len(out) {
				fail("missing-output", "no output for line id %d", in[i].line.ID)
				return
			}
			if !isStart {
				// outside a run every event passes unchanged
				if out[j].id != in[i].line.ID {
					fail("wrong-event-order", "expected unchanged event id %d, got id %d", in[i].line.ID, out[j].id)
					return
				}
				if has && out[j].msg != v {
					fail("non-joined-event-altered", "event id %d has field %q, read %q", out[j].id, out[j].msg, v)
					return
				}
				i++
				j++
				continue
			}
			// maximal run
			m := i
			for m+1 < len(in) {
				nv, nhas, nstr := joinVal(in[m+1].line)
				if !nhas || (nstr && cl.first(nv)) || !cl.next(nv) {
					break
				}
				m++
			}
			if m > i {
				nontrivial = true
			}
			if out[j].id != in[i].line.ID {
				fail("wrong-event-order", "expected the joined event of start line id %d, got id %d", in[i].line.ID, out[j].id)
				return
			}
			// which prefix of the run is it?
			acc := v
			kk := -1
			if out[j].msg == acc {
				kk = i
			}
			for q := i + 1; q <= m && kk < 0 || q <= m && out[j].msg != acc; q++ {
				nv, _, _ := joinVal(in[q].line)
				acc += nv
				if out[j].msg == acc {
					kk = q
					break
				}
			}
			if kk < 0 {
				fail("wrong-concatenation", "joined event id %d has field %q, which is not the in-order concatenation of a prefix of its run", out[j].id, out[j].msg)
				return
			}
			// empty continuation values make prefixes ambiguous: take the longest equal one
			for kk < m {
				nv, _, _ := joinVal(in[kk+1].line)
				if nv != "" || (j+1 < len(out) && out[j+1].id == in[kk+1].line.ID) {
					break
				}
				kk++
			}
			j++
			q := kk
			if q < m && cfg.MaxSize > 0 && len(out[j-1].msg) >= cfg.MaxSize {
				// size limit reached: later values of the run are dropped until the run ends or is cut
				for q < m && !(j < len(out) && out[j].id == in[q+1].line.ID) {
					q++
				}
			}
			if q < m {
				if !cutAllowed(q) {
					fail("run-cut-without-time-out", "the run starting at id %d was cut after id %d although line id %d followed within the time-out (%v after)", in[i].line.ID, in[q].line.ID, in[q+1].line.ID, in[q+1].retT-in[q].callT)
					return
				}
				o.Probes["run-cut-by-time-out"]++
				// the rest of the run passes as single events
				for z := q + 1; z <= m; z++ {
					zv, _, _ := joinVal(in[z].line)
					if j >= len(out) || out[j].id != in[z].line.ID || out[j].msg != zv {
						fail("wrong-output-after-cut", "after the cut, line id %d should pass unchanged", in[z].line.ID)
						return
					}
					j++
				}
			}
			i = m + 1
		}
		if j < len(out) {
			fail("extra-output", "unexpected extra output event id %d %q", out[j].id, out[j].msg)
			return
		}
	}
	o.NonTrivial["C15"] = nontrivial
	o.Summary = map[string]any{"lines": len(all), "outputs": len(outs), "action": cfg.Action, "streams": len(keys)}
}

func lineVal(l Line) string {
	if l.NoMsg {
		return "<absent>"
	}
	if l.NotStr {
		return "<number>"
	}
	return l.Msg
}
