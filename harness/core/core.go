// Package core is the run framework shared by all harness families: run
// configuration, verdicts, replay files, minimisation and batch statistics.
package core

import (
	"encoding/base64"
	"encoding/json"
	"fmt"
	"math/rand/v2"
	"os"
	"sort"
	"strings"
	"sync/atomic"
	"time"
	"unicode/utf8"

	"verif/simrt"
)

// Violation is one oracle verdict against a property.
type Violation struct {
	Prop      string `json:"property"`
	Signature string `json:"signature"` // computed from the history, not from the seed
	Detail    string `json:"detail"`
}

// Outcome of one simulated run.
type Outcome struct {
	Violations   []Violation      `json:"violations,omitempty"`
	Inconclusive string           `json:"inconclusive,omitempty"`
	NonTrivial   map[string]bool  `json:"nontrivial,omitempty"` // per property
	Probes       map[string]int   `json:"probes,omitempty"`
	Faults       map[string]int   `json:"faults,omitempty"`
	EndReason    string           `json:"end_reason"`
	SimTime      time.Duration    `json:"sim_time"`
	Steps        int              `json:"steps"`
	Hash         uint64           `json:"hash"`
	Goroutines   int              `json:"goroutines"`
	Summary      any              `json:"summary,omitempty"` // short description for evidence samples
	Decisions    []simrt.Decision `json:"-"`
	Trace        []string         `json:"-"`
}

func (o *Outcome) Violate(prop, sig, format string, args ...any) {
	o.Violations = append(o.Violations, Violation{Prop: prop, Signature: sig, Detail: fmt.Sprintf(format, args...)})
}

func (o *Outcome) For(prop string) []Violation {
	var out []Violation
	for _, v := range o.Violations {
		if v.Prop == prop {
			out = append(out, v)
		}
	}
	return out
}

// Cfg is a harness run configuration; it must be JSON round-trippable.
type Cfg interface {
	SimCfg() *simrt.Config
}

// Harness is one harness family.
type Harness interface {
	Name() string
	Props() []string
	// Gen draws a swarm configuration for one run.
	Gen(rng *rand.Rand, tier string, prop string) Cfg
	// NewCfg returns an empty configuration for decoding a replay file.
	NewCfg() Cfg
	// Run executes one run on the given simulation and evaluates the oracles.
	Run(cfg Cfg, sim *simrt.Sim) *Outcome
	// Shrink proposes simpler configurations (may return nil).
	Shrink(cfg Cfg) []Cfg
}

var registry = map[string]Harness{}
var propHarness = map[string][]string{}

// Weighted is optional: a harness that wants more or less than an equal share
// of a property's runs says how many slots of the rotation it takes.
type Weighted interface {
	Weight(prop string) int
}

func Register(h Harness) {
	registry[h.Name()] = h
	for _, p := range h.Props() {
		w := 1
		if wh, ok := h.(Weighted); ok {
			w = wh.Weight(p)
		}
		for i := 0; i < w; i++ {
			propHarness[p] = append(propHarness[p], h.Name())
		}
	}
}

func Get(name string) Harness { return registry[name] }
func HarnessesFor(prop string) []Harness {
	var hs []Harness
	names := append([]string(nil), propHarness[prop]...)
	sort.Strings(names)
	for _, n := range names {
		hs = append(hs, registry[n])
	}
	return hs
}

// Exec runs one configuration. script == nil: exploration from cfg's seed;
// otherwise replay of that decision script.
func Exec(h Harness, cfg Cfg, script []simrt.Decision, replay bool, trace bool) *Outcome {
	sc := *cfg.SimCfg()
	if trace {
		sc.TraceOn = true
		sc.KeepTrace = 400
	}
	sim := simrt.New(sc)
	if replay {
		sim.SetScript(script)
	}
	Current.Store(&ExecInfo{H: h, Cfg: cfg, Sim: sim})
	o := h.Run(cfg, sim)
	Current.Store(nil)
	o.SimTime = sim.Now()
	o.Steps = sim.Steps()
	o.Hash = sim.Hash()
	o.Goroutines = sim.Goroutines()
	o.Decisions = sim.Decisions()
	if o.Faults == nil {
		o.Faults = map[string]int{}
	}
	for k, v := range sim.Faults() {
		o.Faults[k] += v
	}
	if o.Probes == nil {
		o.Probes = map[string]int{}
	}
	for k, v := range sim.Probes() {
		o.Probes[k] += v
	}
	if trace {
		o.Trace = sim.Trace()
	}
	return o
}

// ExecInfo describes the execution in progress (read by the wall-clock spin watch of the worker binary).
type ExecInfo struct {
	H   Harness
	Cfg Cfg
	Sim *simrt.Sim
}

var Current atomic.Pointer[ExecInfo]

// Replay is the replay file format.
type Replay struct {
	Property      string           `json:"property"`
	Harness       string           `json:"harness"`
	Tier          string           `json:"tier"`
	Seed          uint64           `json:"seed"`
	Index         int              `json:"run_index"`
	Cfg           json.RawMessage  `json:"config"`
	Script        []simrt.Decision `json:"decisions"`
	Signature     string           `json:"signature"`
	Detail        string           `json:"detail"`
	Hash          string           `json:"trace_hash"`
	Steps         int              `json:"steps"`
	SimTime       string           `json:"sim_time"`
	OrigDecisions int              `json:"decisions_before_minimisation"`
	Note          string           `json:"note,omitempty"`
}

func WriteReplay(path string, r *Replay) error {
	b, err := json.MarshalIndent(r, "", " ")
	if err != nil {
		return err
	}
	return os.WriteFile(path, b, 0o644)
}

func ReadReplay(path string) (*Replay, Harness, Cfg, error) {
	b, err := os.ReadFile(path)
	if err != nil {
		return nil, nil, nil, err
	}
	var r Replay
	if err := json.Unmarshal(b, &r); err != nil {
		return nil, nil, nil, err
	}
	h := Get(r.Harness)
	if h == nil {
		return nil, nil, nil, fmt.Errorf("unknown harness %q", r.Harness)
	}
	cfg := h.NewCfg()
	if err := json.Unmarshal(r.Cfg, cfg); err != nil {
		return nil, nil, nil, err
	}
	return &r, h, cfg, nil
}

// RunSeed derives the per-run seed from the base seed and the run index.
func RunSeed(base uint64, index int) uint64 {
	x := base ^ (uint64(index)+1)*0x9E3779B97F4A7C15
	x ^= x >> 30
	x *= 0xBF58476D1CE4E5B9
	x ^= x >> 27
	x *= 0x94D049BB133111EB
	x ^= x >> 31
	return x
}

// sameClass: the violation class that minimisation must preserve.
func findSig(o *Outcome, prop, sig string) *Violation {
	for i := range o.Violations {
		if o.Violations[i].Prop == prop && o.Violations[i].Signature == sig {
			return &o.Violations[i]
		}
	}
	return nil
}

// Minimise shrinks (cfg, script) while the same violation signature persists.
func Minimise(h Harness, cfg Cfg, script []simrt.Decision, prop, sig string, budget time.Duration) (Cfg, []simrt.Decision, *Outcome, int) {
	deadline := time.Now().Add(budget)
	tries := 0
	test := func(c Cfg, sc []simrt.Decision) *Outcome {
		tries++
		o := Exec(h, c, sc, true, false)
		if findSig(o, prop, sig) != nil {
			return o
		}
		return nil
	}
	best := test(cfg, script)
	if best == nil {
		return cfg, script, nil, tries
	}
	script = best.Decisions // only the decisions that were actually consumed
	for round := 0; round < 4 && time.Now().Before(deadline); round++ {
		changed := false
		// 1. simpler configurations
		for progress := true; progress && time.Now().Before(deadline); {
			progress = false
			for _, c := range h.Shrink(cfg) {
				if time.Now().After(deadline) {
					break
				}
				if o := test(c, script); o != nil {
					cfg, best, progress, changed = c, o, true, true
					script = o.Decisions
					break
				}
			}
		}
		// 2. ddmin over the decision script
		n := 2
		for len(script) > 0 && time.Now().Before(deadline) {
			chunk := (len(script) + n - 1) / n
			reduced := false
			for i := 0; i < len(script) && time.Now().Before(deadline); i += chunk {
				j := min(i+chunk, len(script))
				cand := append(append([]simrt.Decision(nil), script[:i]...), script[j:]...)
				if o := test(cfg, cand); o != nil {
					script, best, reduced, changed = o.Decisions, o, true, true
					n = max(n-1, 2)
					break
				}
			}
			if !reduced {
				if chunk <= 1 {
					break
				}
				n = min(n*2, len(script))
			}
		}
		if !changed {
			break
		}
	}
	return cfg, script, best, tries
}

// Known finding list (committed file; never written at run time).
type Known struct {
	Property    string `json:"property"`
	Signature   string `json:"signature"` // exact signature or prefix ending in '*'
	Description string `json:"description"`
	Status      string `json:"status,omitempty"` // "known" (default) | "fixed"
}

func LoadKnown(path string) ([]Known, error) {
	b, err := os.ReadFile(path)
	if err != nil {
		if os.IsNotExist(err) {
			return nil, nil
		}
		return nil, err
	}
	var out []Known
	for _, line := range strings.Split(string(b), "\n") {
		line = strings.TrimSpace(line)
		if line == "" || strings.HasPrefix(line, "#") || strings.HasPrefix(line, "fixed:") {
			continue
		}
		var k Known
		if err := json.Unmarshal([]byte(line), &k); err != nil {
			return nil, fmt.Errorf("known findings: %v in %q", err, line)
		}
		if k.Status == "fixed" {
			continue
		}
		out = append(out, k)
	}
	return out, nil
}

func MatchKnown(ks []Known, v Violation) *Known {
	for i := range ks {
		k := &ks[i]
		if k.Property == v.Prop && wildMatch(k.Signature, v.Signature) {
			return k
		}
	}
	return nil
}

// wildMatch: '*' in the pattern matches any (possibly empty) run of characters.
func wildMatch(pat, s string) bool {
	if !strings.Contains(pat, "*") {
		return pat == s
	}
	parts := strings.Split(pat, "*")
	if !strings.HasPrefix(s, parts[0]) {
		return false
	}
	s = s[len(parts[0]):]
	last := parts[len(parts)-1]
	for _, p := range parts[1 : len(parts)-1] {
		i := strings.Index(s, p)
		if i < 0 {
			return false
		}
		s = s[i+len(p):]
	}
	return strings.HasSuffix(s, last)
}

// helpers for swarm generation
func Pick[T any](rng *rand.Rand, xs ...T) T { return xs[rng.IntN(len(xs))] }
func Between(rng *rand.Rand, lo, hi int) int {
	if hi <= lo {
		return lo
	}
	return lo + rng.IntN(hi-lo+1)
}
func DurBetween(rng *rand.Rand, lo, hi time.Duration) time.Duration {
	if hi <= lo {
		return lo
	}
	// log-uniform
	f := rng.Float64()
	r := float64(hi) / float64(lo)
	v := float64(lo)
	for r > 1 && f > 0 {
		step := min(r, 2.0)
		if f < 0.5 {
			v *= 1 + (step-1)*f*2
			break
		}
		v *= step
		r /= step
		f = (f - 0.5) * 2
	}
	if v > float64(hi) {
		v = float64(hi)
	}
	return time.Duration(v)
}
func Chance(rng *rand.Rand, p float64) bool { return rng.Float64() < p }

// Bin is a string that may hold arbitrary bytes (a log line cut inside a multi-byte rune, invalid UTF-8 on
// purpose). encoding/json would replace such bytes by U+FFFD and the replay file would describe another
// input: valid UTF-8 is written as a plain JSON string, anything else as {"b64": "..."}.
type Bin string

func (b Bin) MarshalJSON() ([]byte, error) {
	if utf8.ValidString(string(b)) {
		return json.Marshal(string(b))
	}
	return json.Marshal(map[string]string{"b64": base64.StdEncoding.EncodeToString([]byte(b))})
}

func (b *Bin) UnmarshalJSON(data []byte) error {
	var s string
	if err := json.Unmarshal(data, &s); err == nil {
		*b = Bin(s)
		return nil
	}
	var m map[string]string
	if err := json.Unmarshal(data, &m); err != nil {
		return err
	}
	raw, err := base64.StdEncoding.DecodeString(m["b64"])
	if err != nil {
		return err
	}
	*b = Bin(raw)
	return nil
}
