// Package all links every harness family into the worker binary.
package all

import (
	_ "github.com/ozontech/file.d/zz_verifharness/h1pipe"
	_ "github.com/ozontech/file.d/zz_verifharness/h2batcher"
	_ "github.com/ozontech/file.d/zz_verifharness/h3file"
	_ "github.com/ozontech/file.d/zz_verifharness/h3offsets"
	_ "github.com/ozontech/file.d/zz_verifharness/h4kafka"
	_ "github.com/ozontech/file.d/zz_verifharness/h5http"
	_ "github.com/ozontech/file.d/zz_verifharness/h6throttle"
	_ "github.com/ozontech/file.d/zz_verifharness/h7join"
	_ "github.com/ozontech/file.d/zz_verifharness/h8admit"
	_ "github.com/ozontech/file.d/zz_verifharness/h9outputs"
	_ "github.com/ozontech/file.d/zz_verifharness/hpool"
)
