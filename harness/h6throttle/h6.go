// Package h6throttle is harness H6: the real throttle action (in-memory
// backend, limiters map shared by the plugin instances of one pipeline) driven
// by several "processor" goroutines on a simulated clock with stalls across
// many buckets. Decides C16.
package h6throttle

import (
	"fmt"
	"math"
	"math/rand/v2"
	"os"
	"sort"
	"strings"
	"time"

	"github.com/ozontech/file.d/fd"
	"github.com/ozontech/file.d/metric"
	"github.com/ozontech/file.d/pipeline"
	"github.com/ozontech/file.d/plugin/action/throttle"
	"github.com/ozontech/file.d/zz_verifharness/core"
	"github.com/ozontech/file.d/zz_verifharness/h1pipe"
	insaneJSON "github.com/ozontech/insane-json"
	"github.com/prometheus/client_golang/prometheus"
	"verif/simrt"
)

func init() { core.Register(&H{}) }

type Ev struct {
	ID       int           `json:"id"`
	Key      string        `json:"key"`            // "" = field absent -> default key
	Lvl      string        `json:"lvl,omitempty"`  // rule condition field
	Zone     string        `json:"zone,omitempty"` // second rule condition field
	Dist     string        `json:"dist,omitempty"` // distribution field
	TimeOff  time.Duration `json:"time_off"`       // event time = now + offset
	TimeKind string        `json:"time_kind"`      // ok | garbage | absent
	Size     int           `json:"size"`
	Pause    time.Duration `json:"pause,omitempty"`
}

type RuleCfg struct {
	Limit int64  `json:"limit"`
	Kind  string `json:"kind"`
	Lvl   string `json:"lvl"`
	Zone  string `json:"zone,omitempty"` // second condition of the rule (field "azone", sorting before "lvl"): both must match
	// DistRatio: the rule has its own limit_distribution (same value groups as Cfg.DistVals, these ratios)
	DistRatio []float64 `json:"dist_ratios,omitempty"`
}

type Cfg struct {
	Sim       simrt.Config  `json:"sim"`
	Limit     int64         `json:"default_limit"`
	Kind      string        `json:"limit_kind"`
	Interval  time.Duration `json:"bucket_interval"`
	Buckets   int           `json:"buckets_count"`
	Rules     []RuleCfg     `json:"rules"`
	DistVals  [][]string    `json:"dist_values,omitempty"` // limit distribution of the default rule: value groups
	DistRatio []float64     `json:"dist_ratios,omitempty"`
	Procs     [][]Ev        `json:"procs"`
}

func (c *Cfg) SimCfg() *simrt.Config { return &c.Sim }

type H struct{}

func (h *H) Name() string     { return "h6throttle" }
func (h *H) Props() []string  { return []string{"C16"} }
func (h *H) NewCfg() core.Cfg { return &Cfg{} }

func (h *H) Gen(rng *rand.Rand, tier, prop string) core.Cfg {
	c := &Cfg{}
	c.Sim = simrt.Config{PSwitch: core.Pick(rng, 0.02, 0.1, 0.3), StepCost: time.Microsecond, MaxSteps: 1_000_000, Horizon: 3 * time.Hour, Faults: map[string]float64{}}
	c.Kind = core.Pick(rng, "count", "count", "size")
	if c.Kind == "count" {
		c.Limit = int64(core.Pick(rng, 0, 1, 2, 3, 5))
	} else {
		c.Limit = int64(core.Between(rng, 10, 200))
	}
	c.Interval = core.Pick(rng, 100*time.Millisecond, 250*time.Millisecond, time.Second)
	c.Buckets = core.Between(rng, 2, 8)
	nr := core.Pick(rng, 0, 0, 1, 2)
	lvls := []string{"err", "warn"}
	for i := 0; i < nr; i++ {
		rc := RuleCfg{Kind: core.Pick(rng, "count", "size"), Lvl: lvls[i]}
		if core.Chance(rng, 0.4) {
			rc.Zone = core.Pick(rng, "z1", "err", "warn") // also values that the other condition uses
		}
		if rc.Kind == "count" {
			rc.Limit = int64(core.Between(rng, 0, 4))
		} else {
			rc.Limit = int64(core.Between(rng, 10, 150))
		}
		if core.Chance(rng, 0.3) && rc.Limit >= 2 {
			rc.DistRatio = []float64{core.Pick(rng, 0.25, 0.5), 0.25}
			c.DistVals = [][]string{{"a"}, {"b", "c"}}
		}
		c.Rules = append(c.Rules, rc)
	}
	if core.Chance(rng, 0.25) && c.Limit >= 2 {
		c.DistVals = [][]string{{"a"}, {"b", "c"}}
		c.DistRatio = []float64{core.Pick(rng, 0.25, 0.5), 0.25}
	}
	if core.Chance(rng, 0.4) {
		c.Sim.Faults["time.stall"] = core.Pick(rng, 0.002, 0.01)
		c.Sim.StallMax = time.Duration(core.Between(rng, 1, 300)) * c.Interval
	}
	np := core.Between(rng, 1, 4)
	keys := []string{"", "k1", "k2", "k3"}[:core.Between(rng, 1, 4)]
	n := core.Between(rng, 3, 60)
	if tier == "thorough" {
		n = core.Between(rng, 3, 200)
	}
	c.Procs = make([][]Ev, np)
	window := time.Duration(c.Buckets) * c.Interval
	for i := 0; i < n; i++ {
		e := Ev{ID: i + 1, Key: keys[rng.IntN(len(keys))], Size: core.Between(rng, 5, 60)}
		if nr > 0 && core.Chance(rng, 0.4) {
			e.Lvl = lvls[rng.IntN(nr)]
			e.Zone = core.Pick(rng, "", "z1", "z1", "err", "warn", "z2")
		}
		if c.DistVals != nil {
			e.Dist = core.Pick(rng, "a", "b", "c", "other", "")
		}
		switch {
		case core.Chance(rng, 0.5):
			e.TimeKind = "ok"
			switch {
			case core.Chance(rng, 0.5):
			case core.Chance(rng, 0.5):
				e.TimeOff = -time.Duration(rng.Int64N(int64(window)))
			case core.Chance(rng, 0.5):
				e.TimeOff = -window * time.Duration(core.Between(rng, 2, 1000))
			default:
				e.TimeOff = window * time.Duration(core.Between(rng, 1, 1000))
			}
		case core.Chance(rng, 0.3):
			e.TimeKind = "garbage"
		default:
			e.TimeKind = "absent"
		}
		switch {
		case core.Chance(rng, 0.6):
		case core.Chance(rng, 0.7):
			e.Pause = time.Duration(rng.Int64N(int64(c.Interval)))
		default:
			e.Pause = time.Duration(rng.Int64N(int64(3 * window)))
		}
		pi := rng.IntN(np)
		c.Procs[pi] = append(c.Procs[pi], e)
	}
	return c
}

func (h *H) Shrink(cc core.Cfg) []core.Cfg {
	c := cc.(*Cfg)
	var out []core.Cfg
	clone := func() *Cfg {
		d := *c
		d.Procs = make([][]Ev, len(c.Procs))
		for i := range c.Procs {
			d.Procs[i] = append([]Ev(nil), c.Procs[i]...)
		}
		return &d
	}
	for i := range c.Procs {
		if n := len(c.Procs[i]); n > 0 {
			d := clone()
			d.Procs[i] = d.Procs[i][:n/2]
			out = append(out, d)
			d = clone()
			d.Procs[i] = d.Procs[i][n/2:]
			out = append(out, d)
			if n <= 10 {
				for j := 0; j < n; j++ {
					d := clone()
					d.Procs[i] = append(d.Procs[i][:j:j], d.Procs[i][j+1:]...)
					out = append(out, d)
				}
			}
		}
	}
	return out
}

type obs struct {
	ev      Ev
	t0, t1  time.Duration
	s0, s1  int
	pass    bool
	rule    int // index into rules (len(rules) = default)
	evTime  time.Time
	hasTime bool
	size    int
}

var seq int

func (h *H) Run(cc core.Cfg, sim *simrt.Sim) *core.Outcome {
	cfg := cc.(*Cfg)
	o := &core.Outcome{NonTrivial: map[string]bool{}, Probes: map[string]int{}}
	var all []*obs
	verdict := false
	defer throttle.VerifForgetAll() // package-level limiter table (see overlay)
	reason := sim.Run(func() {
		seq++
		name := fmt.Sprintf("h6_%d", seq)
		static, err := fd.DefaultPluginRegistry.Get(pipeline.PluginKindAction, "throttle")
		if err != nil {
			panic(err)
		}
		distJSON := func(ratios []float64) string {
			if ratios == nil {
				return ""
			}
			var rs []string
			for i, vs := range cfg.DistVals {
				rs = append(rs, fmt.Sprintf(`{"ratio":%v,"values":["%s"]}`, ratios[i], strings.Join(vs, `","`)))
			}
			return fmt.Sprintf(`,"limit_distribution":{"field":"dist","ratios":[%s]}`, strings.Join(rs, ","))
		}
		var rules []string
		for _, r := range cfg.Rules {
			cond := fmt.Sprintf(`{"lvl":%q}`, r.Lvl)
			if r.Zone != "" {
				cond = fmt.Sprintf(`{"lvl":%q,"azone":%q}`, r.Lvl, r.Zone)
			}
			rules = append(rules, fmt.Sprintf(`{"limit":%d,"limit_kind":%q,"conditions":%s%s}`, r.Limit, r.Kind, cond, distJSON(r.DistRatio)))
		}
		dist := distJSON(cfg.DistRatio)
		window := time.Duration(cfg.Buckets) * cfg.Interval
		js := fmt.Sprintf(`{"throttle_field":"k","time_field":"time","default_limit":%d,"limit_kind":%q,"bucket_interval":%q,"buckets_count":%d,"limiter_expiration":%q,"rules":[%s]%s}`,
			cfg.Limit, cfg.Kind, cfg.Interval.String(), cfg.Buckets, (2*window + cfg.Sim.StallMax + 5*time.Second).String(), strings.Join(rules, ","), dist)
		conf, err := pipeline.GetConfig(static, []byte(js), map[string]int{"gomaxprocs": 1, "capacity": 16})
		if err != nil {
			panic(fmt.Sprintf("throttle config: %v (%s)", err, js))
		}
		mctl := metric.NewCtl(name, prometheus.NewRegistry(), 0, 0)
		var wg simrt.WaitGroup
		for pi, evs := range cfg.Procs {
			evs := evs
			pl, _ := static.Factory()
			plugin := pl.(pipeline.ActionPlugin)
			plugin.Start(conf, &pipeline.ActionPluginParams{
				PluginDefaultParams: pipeline.PluginDefaultParams{PipelineName: name, PipelineSettings: &pipeline.Settings{}, MetricCtl: mctl},
				Logger:              h1pipe.QuietLogger().Sugar(), Index: 0,
			})
			wg.Add(1)
			simrt.Go(fmt.Sprintf("proc%d", pi), func() {
				defer wg.Done()
				for _, e := range evs {
					if e.Pause > 0 {
						simrt.Sleep(e.Pause)
					}
					ob := &obs{ev: e, size: e.Size}
					var sb strings.Builder
					fmt.Fprintf(&sb, `{"id":%d`, e.ID)
					if e.Key != "" {
						fmt.Fprintf(&sb, `,"k":%q`, e.Key)
					}
					if e.Lvl != "" {
						fmt.Fprintf(&sb, `,"lvl":%q`, e.Lvl)
					}
					if e.Zone != "" {
						fmt.Fprintf(&sb, `,"azone":%q`, e.Zone)
					}
					if e.Dist != "" {
						fmt.Fprintf(&sb, `,"dist":%q`, e.Dist)
					}
					switch e.TimeKind {
					case "ok":
						ob.evTime = simrt.Now().Add(e.TimeOff)
						ob.hasTime = true
						fmt.Fprintf(&sb, `,"time":%q`, ob.evTime.Format(time.RFC3339Nano))
					case "garbage":
						sb.WriteString(`,"time":"yesterday"`)
					}
					sb.WriteString("}")
					ev := &pipeline.Event{Root: insaneJSON.Spawn(), Size: e.Size}
					if err := ev.Root.DecodeString(sb.String()); err != nil {
						panic(err)
					}
					ob.rule = len(cfg.Rules)
					for i, r := range cfg.Rules {
						if e.Lvl == r.Lvl && (r.Zone == "" || e.Zone == r.Zone) {
							ob.rule = i
							break
						}
					}
					all = append(all, ob)
					ob.t0, ob.s0 = simrt.SimNow(), simrt.Steps()
					res := plugin.Do(ev)
					ob.t1, ob.s1 = simrt.SimNow(), simrt.Steps()
					ob.pass = res == pipeline.ActionPass
					insaneJSON.Release(ev.Root)
				}
			})
		}
		wg.Wait()
		verdict = true
		simrt.Stop("done")
	})
	o.EndReason = reason
	if reason == "died" {
		o.Violate("C16", "died", "throttle died: %s", sim.Died())
		return o
	}
	if !verdict {
		o.Inconclusive = "ended by " + reason
		return o
	}
	h.check(cfg, all, o)
	return o
}

type gk struct {
	rule   int
	key    string
	bucket int64
}

func (h *H) check(cfg *Cfg, all []*obs, o *core.Outcome) {
	iv := int64(cfg.Interval)
	epoch := simrt.Epoch.UnixNano()
	bid := func(t time.Duration) int64 { return (epoch + int64(t)) / iv }
	// attributed bucket of every observation (ok=false: ambiguous)
	attr := func(ob *obs) (int64, bool) {
		c0, c1 := bid(ob.t0), bid(ob.t1)
		if c0 != c1 {
			return 0, false
		}
		cur := c0
		if !ob.hasTime {
			return cur, true // "now" was read inside [t0,t1] and lies in bucket cur
		}
		id := ob.evTime.UnixNano() / iv
		if id < cur-int64(cfg.Buckets)+1 || id > cur {
			return cur, true
		}
		return id, true
	}
	// distOf: the ratios of the limit distribution that applies to a rule index (len(cfg.Rules) = default limit)
	distOf := func(rule int) []float64 {
		if rule < len(cfg.Rules) {
			return cfg.Rules[rule].DistRatio
		}
		return cfg.DistRatio
	}
	limitOf := func(rule int) (int64, string) {
		if rule < len(cfg.Rules) {
			return cfg.Rules[rule].Limit, cfg.Rules[rule].Kind
		}
		return cfg.Limit, cfg.Kind
	}
	if os.Getenv("VERIF_DEBUG") != "" {
		for _, ob := range all {
			b, ok := attr(ob)
			fmt.Printf("ev %d key=%q lvl=%q kind=%s t0=%v t1=%v s0=%d s1=%d pass=%v evTime=%v bucket=%d ok=%v cur0=%d cur1=%d\n", ob.ev.ID, ob.ev.Key, ob.ev.Lvl, ob.ev.TimeKind, ob.t0, ob.t1, ob.s0, ob.s1, ob.pass, ob.evTime.Sub(simrt.Epoch), b, ok, bid(ob.t0), bid(ob.t1))
		}
	}
	passed := map[gk][]*obs{}
	maybe := map[gk][]*obs{} // every event (any result) that may have been counted in that bucket
	ambiguous := 0
	for _, ob := range all {
		key := ob.ev.Key
		if key == "" {
			key = "default"
		}
		b, ok := attr(ob)
		if !ok {
			ambiguous++
			// may belong to either current bucket or its own time bucket
			for _, cand := range []int64{bid(ob.t0), bid(ob.t1), ob.evTime.UnixNano() / iv} {
				k := gk{ob.rule, key, cand}
				maybe[k] = append(maybe[k], ob)
			}
			continue
		}
		k := gk{ob.rule, key, b}
		maybe[k] = append(maybe[k], ob)
		if ob.pass {
			passed[k] = append(passed[k], ob)
		}
	}
	var keys []gk
	for k := range passed {
		keys = append(keys, k)
	}
	sort.Slice(keys, func(i, j int) bool {
		a, b := keys[i], keys[j]
		if a.rule != b.rule {
			return a.rule < b.rule
		}
		if a.key != b.key {
			return a.key < b.key
		}
		return a.bucket < b.bucket
	})
	nontrivial := false
	for _, k := range keys {
		limit, kind := limitOf(k.rule)
		if limit < 0 {
			continue
		}
		var total int64
		perDist := map[int]int64{}
		for _, ob := range passed[k] {
			v := int64(1)
			if kind == "size" {
				v = int64(ob.size)
			}
			total += v
			if distOf(k.rule) != nil {
				for gi, vs := range cfg.DistVals {
					for _, dv := range vs {
						if dv == ob.ev.Dist {
							perDist[gi] += v
						}
					}
				}
			}
		}
		if total >= limit {
			nontrivial = true
		}
		bound := limit
		if ratios := distOf(k.rule); ratios != nil {
			// with a distribution the total is bounded by the sum of the (rounded) shares
			var sum float64
			bound = 0
			for _, r := range ratios {
				sum += r
				bound += int64(math.Round(r * float64(limit)))
			}
			bound += int64(math.Round(math.Round((1-sum)*100) / 100 * float64(limit)))
		}
		if total > bound {
			var ids []int
			for _, ob := range passed[k] {
				ids = append(ids, ob.ev.ID)
			}
			o.Violate("C16", "over-limit/"+kind, "rule %d key %q bucket %d: %d (%s) passed, limit %d (bound %d); events %v; bucket interval %v, %d buckets", k.rule, k.key, k.bucket, total, kind, limit, bound, ids, cfg.Interval, cfg.Buckets)
			return
		}
		for gi, v := range perDist {
			share := int64(math.Round(distOf(k.rule)[gi] * float64(limit)))
			if v > share {
				o.Violate("C16", "over-distribution-share/"+kind, "key %q bucket %d: values %v passed %d, their share is %d of limit %d", k.key, k.bucket, cfg.DistVals[gi], v, share, limit)
				return
			}
		}
	}
	// never rejected while under the limit (count kind, no distribution)
	for _, ob := range all {
		if ob.pass {
			continue
		}
		limit, kind := limitOf(ob.rule)
		if kind != "count" || distOf(ob.rule) != nil {
			continue
		}
		if limit < 0 {
			o.Violate("C16", "rejected-with-unlimited-limit", "event %d rejected although its limit is %d", ob.ev.ID, limit)
			return
		}
		key := ob.ev.Key
		if key == "" {
			key = "default"
		}
		b, ok := attr(ob)
		if !ok {
			continue
		}
		earlier := 0
		for _, x := range maybe[gk{ob.rule, key, b}] {
			if x != ob && x.s0 < ob.s1 && x.pass {
				earlier++
			}
		}
		nontrivial = true
		if int64(earlier) < limit {
			o.Violate("C16", "rejected-under-limit", "event %d (rule %d key %q bucket %d) rejected although only %d events of that key and bucket had passed before it returned, limit %d", ob.ev.ID, ob.rule, key, b, earlier, limit)
			return
		}
	}
	o.NonTrivial["C16"] = nontrivial
	o.Probes["ambiguous-bucket-events"] += ambiguous
	o.Summary = map[string]any{"events": len(all), "limit": cfg.Limit, "kind": cfg.Kind, "rules": len(cfg.Rules), "groups": len(keys), "ambiguous": ambiguous}
}
