// Package h5http is harness H5: the real HTTP input plugin (ServeHTTP,
// serveBulk, processBulk, processChunk) called from simulated client
// goroutines with a body reader that returns generated chunk sizes, plain and
// gzip, several requests interleaved by the scheduler, buffers recycled through
// the (deterministic) pools. Decides C11.
package h5http

import (
	"bytes"
	"compress/gzip"
	"fmt"
	"io"
	"math/rand/v2"
	"net/http"
	"net/url"
	"strings"
	"time"

	"github.com/ozontech/file.d/decoder"
	"github.com/ozontech/file.d/fd"
	"github.com/ozontech/file.d/metric"
	"github.com/ozontech/file.d/pipeline"
	"github.com/ozontech/file.d/pipeline/metadata"
	_ "github.com/ozontech/file.d/plugin/input/http"
	"github.com/ozontech/file.d/zz_verifharness/core"
	"github.com/ozontech/file.d/zz_verifharness/h1pipe"
	"github.com/prometheus/client_golang/prometheus"
	"verif/simrt"
)

func init() { core.Register(&H{}) }

type Req struct {
	Body        string        `json:"body"`
	Gzip        bool          `json:"gzip"`
	GzipCuts    []int         `json:"gzip_members_cut_at,omitempty"` // gzip only: the body is sent as several concatenated gzip members (as `cat a.gz b.gz` gives), cut at these byte positions
	Chunks      []int         `json:"chunks"`        // sizes of successive reads of the (possibly compressed) body; the rest comes in one read
	EOFWithData bool          `json:"eof_with_data"` // the last read returns (n>0, io.EOF)
	Delay       time.Duration `json:"delay"`
	Client      int           `json:"client"`
	AbortAfter  int           `json:"abort_after,omitempty"` // >0: the transport fails after this many wire bytes (client went away)
	ContentType string        `json:"content_type,omitempty"`
	Query       string        `json:"query,omitempty"` // raw query string of the URL
}

type Cfg struct {
	Sim  simrt.Config `json:"sim"`
	Reqs []Req        `json:"requests"`
	Meta bool         `json:"meta,omitempty"` // the plugin is configured with meta templates (login, params, request_uuid)
}

func (c *Cfg) SimCfg() *simrt.Config { return &c.Sim }

type H struct{}

func (h *H) Name() string     { return "h5http" }
func (h *H) Props() []string  { return []string{"C11"} }
func (h *H) NewCfg() core.Cfg { return &Cfg{} }

func genBody(rng *rand.Rand, tag byte, tier string) string {
	var sb strings.Builder
	alphabet := []string{"a", "b", "\r", "é", string(tag), string(tag)}
	nl := core.Between(rng, 0, 8)
	for i := 0; i < nl; i++ {
		ln := 0
		switch {
		case core.Chance(rng, 0.2):
		case core.Chance(rng, 0.03):
			ln = core.Between(rng, 16000, 40000) // longer than the 16 KiB read buffer
		default:
			ln = core.Between(rng, 1, 12)
		}
		for j := 0; j < ln; j++ {
			sb.WriteString(alphabet[rng.IntN(len(alphabet))])
		}
		if i < nl-1 || core.Chance(rng, 0.6) {
			if core.Chance(rng, 0.1) {
				sb.WriteString("\r")
			}
			sb.WriteString("\n")
		}
	}
	return sb.String()
}

func (h *H) Gen(rng *rand.Rand, tier, prop string) core.Cfg {
	c := &Cfg{}
	c.Sim = simrt.Config{PSwitch: core.Pick(rng, 0.02, 0.1, 0.3), StepCost: time.Microsecond, MaxSteps: 2_000_000, Horizon: time.Hour, PoolMiss: core.Pick(rng, 0, 0, 0.2)}
	nclients := core.Between(rng, 1, 4)
	nreq := core.Between(rng, 1, 6)
	for i := 0; i < nreq; i++ {
		tag := byte('0' + i)
		r := Req{Body: genBody(rng, tag, tier), Gzip: core.Chance(rng, 0.3), Client: rng.IntN(nclients), EOFWithData: core.Chance(rng, 0.5)}
		wire := len(r.Body)
		if r.Gzip && len(r.Body) > 1 && core.Chance(rng, 0.3) {
			for k, at := core.Between(rng, 1, 2), 0; k > 0 && at < len(r.Body)-1; k-- {
				at = core.Between(rng, at+1, len(r.Body)-1)
				r.GzipCuts = append(r.GzipCuts, at)
			}
		}
		if r.Gzip {
			wire = len(gz(r.Body, r.GzipCuts))
		}
		rest := wire
		for rest > 0 && len(r.Chunks) < 64 {
			var n int
			switch {
			case core.Chance(rng, 0.4):
				n = 1
			case core.Chance(rng, 0.6):
				n = core.Between(rng, 1, min(rest, 9))
			default:
				n = core.Between(rng, 1, rest)
			}
			r.Chunks = append(r.Chunks, n)
			rest -= n
		}
		if core.Chance(rng, 0.3) {
			r.Delay = core.DurBetween(rng, time.Microsecond, 10*time.Millisecond)
		}
		if wire > 2 && core.Chance(rng, 0.12) {
			r.AbortAfter = core.Between(rng, 1, wire-1)
		}
		r.ContentType = core.Pick(rng, "", "", "application/json", "application/x-www-form-urlencoded", "text/plain")
		r.Query = core.Pick(rng, "", "", "a=1&b=x", "pipeline=main")
		c.Reqs = append(c.Reqs, r)
	}
	c.Meta = core.Chance(rng, 0.4)
	return c
}

func (h *H) Shrink(cc core.Cfg) []core.Cfg {
	c := cc.(*Cfg)
	var out []core.Cfg
	clone := func() *Cfg {
		d := *c
		d.Reqs = make([]Req, len(c.Reqs))
		for i, r := range c.Reqs {
			r.Chunks = append([]int(nil), r.Chunks...)
			d.Reqs[i] = r
		}
		return &d
	}
	for i := range c.Reqs {
		if len(c.Reqs) > 1 {
			d := clone()
			d.Reqs = append(d.Reqs[:i], d.Reqs[i+1:]...)
			out = append(out, d)
		}
	}
	for i, r := range c.Reqs {
		if len(r.Chunks) > 0 {
			d := clone()
			d.Reqs[i].Chunks = nil
			out = append(out, d)
			d = clone()
			d.Reqs[i].Chunks = d.Reqs[i].Chunks[:len(r.Chunks)/2]
			out = append(out, d)
		}
		if r.Gzip {
			d := clone()
			d.Reqs[i].Gzip = false
			d.Reqs[i].GzipCuts = nil
			d.Reqs[i].Chunks = nil
			out = append(out, d)
		}
		if len(r.GzipCuts) > 0 {
			d := clone()
			d.Reqs[i].GzipCuts = nil
			d.Reqs[i].Chunks = nil
			out = append(out, d)
		}
		if len(r.Body) > 1 {
			d := clone()
			d.Reqs[i].Body = r.Body[:len(r.Body)/2]
			d.Reqs[i].Chunks = nil
			out = append(out, d)
			d = clone()
			d.Reqs[i].Body = r.Body[len(r.Body)/2:]
			d.Reqs[i].Chunks = nil
			out = append(out, d)
		}
	}
	return out
}

func gz(s string, cuts []int) []byte {
	var b bytes.Buffer
	from := 0
	for _, at := range append(append([]int(nil), cuts...), len(s)) {
		if at <= from || at > len(s) {
			continue
		}
		w := gzip.NewWriter(&b)
		w.Write([]byte(s[from:at]))
		w.Close()
		from = at
	}
	if from == 0 {
		w := gzip.NewWriter(&b)
		w.Close()
	}
	return b.Bytes()
}

type chunkReader struct {
	data        []byte
	sizes       []int
	eofWithData bool
	closed      bool
	abortAfter  int
	sent        int
}

func (c *chunkReader) Read(p []byte) (int, error) {
	simrt.Point()
	if c.abortAfter > 0 && c.sent >= c.abortAfter {
		return 0, io.ErrUnexpectedEOF
	}
	if c.abortAfter > 0 && len(c.data) > c.abortAfter-c.sent {
		c.data = c.data[:c.abortAfter-c.sent] // the rest never arrives
		defer func() { c.eofWithData = false }()
	}
	if len(c.data) == 0 {
		if c.abortAfter > 0 {
			return 0, io.ErrUnexpectedEOF
		}
		return 0, io.EOF
	}
	n := len(c.data)
	if len(c.sizes) > 0 {
		n = min(c.sizes[0], n)
		c.sizes = c.sizes[1:]
	}
	n = min(n, len(p))
	copy(p, c.data[:n])
	c.data = c.data[n:]
	c.sent += n
	if len(c.data) == 0 && c.eofWithData && c.abortAfter == 0 {
		return n, io.EOF
	}
	return n, nil
}
func (c *chunkReader) Close() error { c.closed = true; return nil }

type respWriter struct {
	hdr            http.Header
	status         int
	body           bytes.Buffer
	firstWriteStep int
}

func (w *respWriter) Header() http.Header { return w.hdr }
func (w *respWriter) Write(b []byte) (int, error) {
	if w.firstWriteStep == 0 {
		w.firstWriteStep = simrt.Steps()
		if w.status == 0 {
			w.status = 200
		}
	}
	return w.body.Write(b)
}
func (w *respWriter) WriteHeader(code int) {
	if w.status == 0 {
		w.status = code
		w.firstWriteStep = simrt.Steps()
	}
}

type inRec struct {
	data []byte
	src  pipeline.SourceID
	step int
}

type ctl struct {
	byG    map[int][]inRec
	active map[pipeline.SourceID]int // source id -> goroutine using it
	o      *core.Outcome
	seq    uint64
}

func (c *ctl) In(sourceID pipeline.SourceID, sourceName string, offsets pipeline.Offsets, data []byte, isNewSource bool, meta metadata.MetaData) uint64 {
	g := simrt.CurG()
	c.byG[g] = append(c.byG[g], inRec{data: append([]byte(nil), data...), src: sourceID, step: simrt.Steps()})
	simrt.Point() // the pipeline may block here; other requests run meanwhile
	c.seq++
	return c.seq
}
func (c *ctl) UseSpread()                        {}
func (c *ctl) DisableStreams()                   {}
func (c *ctl) SuggestDecoder(decoder.Type)       {}
func (c *ctl) IncReadOps()                       {}
func (c *ctl) IncMaxEventSizeExceeded(...string) {}

var seq int

type span struct {
	req         int
	src         pipeline.SourceID
	first, last int
}

func calls0(rec *ctl, g, before int) []inRec { return rec.byG[g][before:] }

func (h *H) Run(cc core.Cfg, sim *simrt.Sim) *core.Outcome {
	cfg := cc.(*Cfg)
	o := &core.Outcome{NonTrivial: map[string]bool{}, Probes: map[string]int{}}
	rec := &ctl{byG: map[int][]inRec{}, active: map[pipeline.SourceID]int{}, o: o}
	type result struct {
		g      int
		w      *respWriter
		done   bool
		lastIn int
	}
	results := make([]*result, len(cfg.Reqs))
	var spans []span
	finished := false
	overlap := false
	reason := sim.Run(func() {
		static, err := fd.DefaultPluginRegistry.Get(pipeline.PluginKindInput, "http")
		if err != nil {
			panic(err)
		}
		pcfg := `{"address":"off"}`
		if cfg.Meta {
			pcfg = `{"address":"off","meta":{"rid":"{{ .request_uuid }}","who":"{{ .login }}","from":"{{ .remote_addr }}"}}`
		}
		conf, err := pipeline.GetConfig(static, []byte(pcfg), map[string]int{"gomaxprocs": 1, "capacity": 16})
		if err != nil {
			panic(err)
		}
		pl, _ := static.Factory()
		seq++
		name := fmt.Sprintf("h5_%d", seq)
		plugin := pl.(pipeline.InputPlugin)
		plugin.Start(conf, &pipeline.InputPluginParams{
			PluginDefaultParams: pipeline.PluginDefaultParams{PipelineName: name, PipelineSettings: &pipeline.Settings{AvgEventSize: 64, MetaCacheSize: 16}, MetricCtl: metric.NewCtl(name, prometheus.NewRegistry(), 0, 0)},
			Controller:          rec, Logger: h1pipe.QuietLogger().Sugar(),
		})
		handler := pl.(http.Handler)
		clients := map[int][]int{}
		for i, r := range cfg.Reqs {
			clients[r.Client] = append(clients[r.Client], i)
		}
		var wg simrt.WaitGroup
		inFlight := 0
		for cl := 0; cl < 8; cl++ {
			idxs := clients[cl]
			if len(idxs) == 0 {
				continue
			}
			wg.Add(1)
			simrt.Go(fmt.Sprintf("client%d", cl), func() {
				defer wg.Done()
				for _, i := range idxs {
					r := cfg.Reqs[i]
					if r.Delay > 0 {
						simrt.Sleep(r.Delay)
					}
					wire := []byte(r.Body)
					hdr := http.Header{}
					if r.Gzip {
						wire = gz(r.Body, r.GzipCuts)
						hdr.Set("Content-Encoding", "gzip")
					}
					if r.ContentType != "" {
						hdr.Set("Content-Type", r.ContentType)
					}
					req := &http.Request{Method: http.MethodPost, URL: &url.URL{Path: "/", RawQuery: r.Query}, Header: hdr, RemoteAddr: "10.0.0.7:4242",
						Body: &chunkReader{data: wire, sizes: append([]int(nil), r.Chunks...), eofWithData: r.EOFWithData, abortAfter: r.AbortAfter}}
					w := &respWriter{hdr: http.Header{}}
					res := &result{g: simrt.CurG(), w: w}
					results[i] = res
					before := len(rec.byG[res.g])
					inFlight++
					if inFlight > 1 {
						overlap = true
					}
					handler.ServeHTTP(w, req)
					inFlight--
					if len(calls0(rec, res.g, before)) > 0 {
						cs := calls0(rec, res.g, before)
						spans = append(spans, span{i, cs[0].src, cs[0].step, cs[len(cs)-1].step})
					}
					res.done = true
					calls := rec.byG[res.g][before:]
					h.check(o, i, r, calls, w)
				}
			})
		}
		wg.Wait()
		for a := range spans {
			for b := a + 1; b < len(spans); b++ {
				x, y := spans[a], spans[b]
				if x.src == y.src && x.first <= y.last && y.first <= x.last {
					o.Violate("C11", "source-id-shared-by-concurrent-requests", "requests %d and %d handed lines to the pipeline under the same source id %d during overlapping step intervals [%d,%d] and [%d,%d]", x.req, y.req, x.src, x.first, x.last, y.first, y.last)
				}
			}
		}
		finished = true
		simrt.Stop("done")
	})
	o.EndReason = reason
	if reason == "died" {
		o.Violate("C11", "died", "http input died: %s", sim.Died())
	} else if !finished {
		o.Inconclusive = "ended by " + reason
	}
	total := 0
	for _, r := range cfg.Reqs {
		total += len(r.Body)
	}
	o.NonTrivial["C11"] = total > 0
	o.Probes["requests-overlapped"] += b2i(overlap)
	o.Summary = map[string]any{"requests": len(cfg.Reqs), "body_bytes": total, "overlap": overlap}
	return o
}

func b2i(b bool) int {
	if b {
		return 1
	}
	return 0
}

func short(b []byte) string {
	if len(b) > 60 {
		return fmt.Sprintf("%q...(%d bytes)", b[:60], len(b))
	}
	return fmt.Sprintf("%q", b)
}

func (h *H) check(o *core.Outcome, i int, r Req, calls []inRec, w *respWriter) {
	pieces := strings.Split(r.Body, "\n")
	if len(pieces) > 0 && pieces[len(pieces)-1] == "" {
		pieces = pieces[:len(pieces)-1]
	}
	desc := func() string {
		var sb strings.Builder
		fmt.Fprintf(&sb, "request %d body %s gzip=%v chunks=%v eof_with_data=%v; In data:", i, short([]byte(r.Body)), r.Gzip, r.Chunks, r.EOFWithData)
		for k, c := range calls {
			if k > 12 {
				sb.WriteString(" ...")
				break
			}
			sb.WriteString(" " + short(c.data))
		}
		return sb.String()
	}
	if r.AbortAfter > 0 {
		// the body never arrived completely: no 200, and what was handed over is a prefix of the body's lines
		// (for gzip nothing precise can be said about how far the decompressor got)
		if w.status == 200 {
			o.Violate("C11", "200-for-aborted-transfer", "the transfer broke after %d bytes but the request was answered 200; %s", r.AbortAfter, desc())
			return
		}
		for k := 0; k < len(calls); k++ {
			if k >= len(pieces) || string(calls[k].data) != pieces[k] {
				o.Violate("C11", "wrong-line", "aborted transfer: event #%d is %s, which is not line #%d of the body; %s", k, short(calls[k].data), k, desc())
				return
			}
		}
		return
	}
	if w.status != 200 {
		o.Violate("C11", "non-200", "status %d for a well-formed request; %s", w.status, desc())
		return
	}
	n := min(len(pieces), len(calls))
	for k := 0; k < n; k++ {
		if string(calls[k].data) != pieces[k] {
			o.Violate("C11", "wrong-line", "event #%d is %s, line #%d of the body is %s; %s", k, short(calls[k].data), k, short([]byte(pieces[k])), desc())
			return
		}
	}
	if len(calls) != len(pieces) {
		o.Violate("C11", "line-count", "%d events handed to the pipeline, the body has %d lines; %s", len(calls), len(pieces), desc())
		return
	}
	if len(calls) > 0 && w.firstWriteStep < calls[len(calls)-1].step {
		o.Violate("C11", "response-before-last-line", "the 200 was written at step %d, the last line was handed over at step %d; %s", w.firstWriteStep, calls[len(calls)-1].step, desc())
	}
}
