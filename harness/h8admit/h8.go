// Package h8admit is harness H8: admission control at the pipeline entrance.
// "h8admit" runs Pipeline.In under size-limit / cut-off / decoder / antispam
// settings with concurrent sources and the pipeline's own antispam maintenance
// goroutine on simulated time; "h8antispam" drives the exported
// antispam.Antispammer directly with harness-scheduled Maintenance calls for
// exact round boundaries. Together they decide C20.
package h8admit

import (
	"fmt"
	"math/rand/v2"
	"sort"
	"strconv"
	"strings"
	"time"

	"github.com/ozontech/file.d/cfg/matchrule"
	"github.com/ozontech/file.d/metric"
	"github.com/ozontech/file.d/pipeline"
	"github.com/ozontech/file.d/pipeline/antispam"
	"github.com/ozontech/file.d/pipeline/doif"
	"github.com/ozontech/file.d/zz_verifharness/core"
	"github.com/ozontech/file.d/zz_verifharness/h1pipe"
	"github.com/prometheus/client_golang/prometheus"
	"verif/simrt"
)

func init() {
	core.Register(&H{})
	core.Register(&HA{})
}

type Rec struct {
	ID      int           `json:"id"`
	Source  int           `json:"src"`
	Kind    string        `json:"kind"` // json | empty | nl | bad | text
	Pad     int           `json:"pad"`
	Newline bool          `json:"newline"`
	New     bool          `json:"new_source,omitempty"`
	Exempt  bool          `json:"exempt,omitempty"` // carries the marker an antispam exception matches
	Pause   time.Duration `json:"pause,omitempty"`
}

type Cfg struct {
	Sim       simrt.Config  `json:"sim"`
	Decoder   string        `json:"decoder"` // json | raw
	MaxSize   int           `json:"max_event_size"`
	CutOff    bool          `json:"cut_off"`
	CutField  string        `json:"cut_off_field"`
	Threshold int           `json:"antispam_threshold"`
	Exception bool          `json:"antispam_exception"`
	MaintIvl  time.Duration `json:"antispam_interval"`
	PipeIvl   time.Duration `json:"pipeline_maintenance_interval,omitempty"` // the pipeline's own maintenance interval (a different setting)
	// RuleThr > 0: antispam *rules* instead of the plain threshold: one rule that every record of the harness matches
	// (it contains a colon) with this threshold; the common threshold (0 = refuse whatever no rule takes, or another
	// number) then never applies, and exceptions are not consulted
	RuleThr int     `json:"antispam_rule_threshold,omitempty"`
	Readers [][]Rec `json:"readers"`
}

// effThr is the threshold that governs every record of a run.
func (c *Cfg) effThr() int {
	if c.RuleThr > 0 {
		return c.RuleThr
	}
	return c.Threshold
}

func (c *Cfg) SimCfg() *simrt.Config { return &c.Sim }

type H struct{}

func (h *H) Name() string     { return "h8admit" }
func (h *H) Props() []string  { return []string{"C20"} }
func (h *H) NewCfg() core.Cfg { return &Cfg{} }

func recBytes(r Rec, dec string) []byte {
	var s string
	switch r.Kind {
	case "empty":
		return []byte{}
	case "nl":
		return []byte("\n")
	case "bad":
		s = `{"id":` + strconv.Itoa(r.ID) + `,"pad":"` + strings.Repeat("x", r.Pad)
	case "text":
		s = "t" + strconv.Itoa(r.ID) + ":" + strings.Repeat("y", r.Pad)
	case "multi":
		// a multi-line payload (a Kafka message, say): every third byte of the padding is a newline
		b := make([]byte, r.Pad)
		for j := range b {
			b[j] = 'y'
			if (j+r.ID)%3 == 0 {
				b[j] = '\n'
			}
		}
		s = "t" + strconv.Itoa(r.ID) + ":" + string(b)
	default:
		s = fmt.Sprintf(`{"id":%d,"pad":%q}`, r.ID, strings.Repeat("x", r.Pad))
	}
	if r.Exempt {
		if r.Kind == "json" {
			s = fmt.Sprintf(`{"id":%d,"pad":%q,"vip":"EXEMPT"}`, r.ID, strings.Repeat("x", r.Pad))
		} else {
			s += "EXEMPT"
		}
	}
	if r.Newline {
		s += "\n"
	}
	return []byte(s)
}

func (h *H) Gen(rng *rand.Rand, tier, prop string) core.Cfg {
	c := &Cfg{}
	c.Sim = simrt.Config{PSwitch: core.Pick(rng, 0.01, 0.05, 0.2), StepCost: time.Microsecond, MaxSteps: 1_000_000, Horizon: time.Hour, Faults: map[string]float64{}, Procs: 1}
	c.Decoder = core.Pick(rng, "json", "json", "raw")
	if core.Chance(rng, 0.6) {
		c.MaxSize = core.Between(rng, 20, 60)
		c.CutOff = core.Chance(rng, 0.5)
		if c.CutOff && core.Chance(rng, 0.6) {
			c.CutField = "cut"
		}
	}
	c.Threshold = core.Pick(rng, -1, -1, 0, 1, 3, 5, 20)
	c.Exception = c.Threshold >= 0 && core.Chance(rng, 0.5)
	if core.Chance(rng, 0.15) {
		c.Threshold, c.Exception = core.Pick(rng, 0, 0, 7), false
		c.RuleThr = core.Pick(rng, 2, 3, 5)
	}
	c.MaintIvl = core.DurBetween(rng, 50*time.Millisecond, 2*time.Second)
	c.PipeIvl = core.Pick(rng, 5*time.Second, time.Hour, 30*time.Millisecond)
	if core.Chance(rng, 0.2) {
		c.Sim.Faults["time.stall"] = 0.001
		c.Sim.StallMax = 3 * time.Second
	}
	nr := core.Between(rng, 1, 3)
	nsrc := core.Between(rng, nr, 4)
	n := core.Between(rng, 3, 40)
	if tier == "thorough" {
		n = core.Between(rng, 3, 150)
	}
	c.Readers = make([][]Rec, nr)
	for i := 0; i < n; i++ {
		src := rng.IntN(nsrc)
		r := Rec{ID: i + 1, Source: src + 1, Newline: core.Chance(rng, 0.7)}
		switch {
		case core.Chance(rng, 0.05):
			r.Kind = "empty"
		case core.Chance(rng, 0.05):
			r.Kind = "nl"
		case c.Decoder == "json" && core.Chance(rng, 0.08):
			r.Kind = "bad"
		case c.Decoder == "raw" && core.Chance(rng, 0.2):
			r.Kind = "multi"
		case c.Decoder == "raw":
			r.Kind = "text"
		default:
			r.Kind = "json"
		}
		switch {
		case c.MaxSize > 0 && core.Chance(rng, 0.3):
			// around the limit: at, one under, one over
			base := len(recBytes(Rec{ID: r.ID, Kind: r.Kind, Newline: r.Newline}, c.Decoder))
			r.Pad = max(0, c.MaxSize-base+core.Between(rng, -1, 1))
		case core.Chance(rng, 0.2):
			r.Pad = core.Between(rng, 40, 100)
		default:
			r.Pad = core.Between(rng, 0, 12)
		}
		if c.Exception && core.Chance(rng, 0.25) {
			r.Exempt = true
		}
		if core.Chance(rng, 0.05) {
			r.New = true
		}
		if core.Chance(rng, 0.4) {
			r.Pause = core.DurBetween(rng, time.Millisecond, c.MaintIvl)
		}
		c.Readers[src%nr] = append(c.Readers[src%nr], r)
	}
	return c
}

func (h *H) Shrink(cc core.Cfg) []core.Cfg {
	c := cc.(*Cfg)
	var out []core.Cfg
	clone := func() *Cfg {
		d := *c
		d.Readers = make([][]Rec, len(c.Readers))
		for i := range c.Readers {
			d.Readers[i] = append([]Rec(nil), c.Readers[i]...)
		}
		return &d
	}
	for i := range c.Readers {
		if n := len(c.Readers[i]); n > 0 {
			d := clone()
			d.Readers[i] = d.Readers[i][:n/2]
			out = append(out, d)
			d = clone()
			d.Readers[i] = d.Readers[i][n/2:]
			out = append(out, d)
			if n <= 10 {
				for j := 0; j < n; j++ {
					d := clone()
					d.Readers[i] = append(d.Readers[i][:j:j], d.Readers[i][j+1:]...)
					out = append(out, d)
				}
			}
		}
	}
	return out
}

// ---- output that records and commits at once ----

type sinkOut struct {
	ctl  pipeline.OutputPluginController
	seen map[int]string
	raw  []string
}

func (s *sinkOut) Start(_ pipeline.AnyConfig, p *pipeline.OutputPluginParams) { s.ctl = p.Controller }
func (s *sinkOut) Stop()                                                      {}
func (s *sinkOut) Out(e *pipeline.Event) {
	js := e.Root.EncodeToString()
	s.raw = append(s.raw, js)
	if n := e.Root.Dig("id"); n != nil {
		s.seen[n.AsInt()] = js
	} else if m := e.Root.Dig("message"); m != nil {
		msg := m.AsString()
		if strings.HasPrefix(msg, "t") {
			if i := strings.IndexByte(msg, ':'); i > 1 {
				if id, err := strconv.Atoi(msg[1:i]); err == nil {
					s.seen[id] = js
				}
			}
		}
	}
	s.ctl.Commit(e)
}

type inPlugin struct{}

func (inPlugin) Start(pipeline.AnyConfig, *pipeline.InputPluginParams) {}
func (inPlugin) Stop()                                                 {}
func (inPlugin) Commit(*pipeline.Event)                                {}
func (inPlugin) PassEvent(*pipeline.Event) bool                        { return true }

var seq int

type obs struct {
	rec    Rec
	seqRet uint64
	callT  time.Duration
	done   bool
}

func (h *H) Run(cc core.Cfg, sim *simrt.Sim) *core.Outcome {
	cfg := cc.(*Cfg)
	o := &core.Outcome{NonTrivial: map[string]bool{}, Probes: map[string]int{}}
	out := &sinkOut{seen: map[int]string{}}
	var all []*obs
	var silenceViol []int
	verdict := false
	reason := sim.Run(func() {
		seq++
		name := fmt.Sprintf("h8_%d", seq)
		var exc antispam.Exceptions
		if cfg.Exception {
			exc = antispam.Exceptions{{RuleSet: matchrule.RuleSet{Name: "vip", Cond: matchrule.CondAnd, Rules: []matchrule.Rule{{Values: []string{"EXEMPT"}, Mode: matchrule.ModeContains}}}}}
			exc.Prepare()
		}
		var rules antispam.Rules
		if cfg.RuleThr > 0 {
			chk, err := doif.NewFromMap(map[string]any{"op": "contains", "field": "event", "values": []any{":"}})
			if err != nil {
				panic(err)
			}
			rules = antispam.Rules{{Name: "everything", Threshold: cfg.RuleThr, DoIfChecker: chk}}
		}
		pipeIvl := cfg.PipeIvl
		if pipeIvl == 0 {
			pipeIvl = 5 * time.Second
		}
		settings := &pipeline.Settings{
			Capacity: 16, MaintenanceInterval: pipeIvl, EventTimeout: time.Second,
			Antispam:     pipeline.AntispamSettings{Threshold: cfg.Threshold, MaintenanceInterval: cfg.MaintIvl, Exceptions: exc, Rules: rules},
			AvgEventSize: 128, StreamField: "stream", Decoder: cfg.Decoder, Pool: pipeline.PoolTypeStd, MaxEventSize: cfg.MaxSize,
			CutOffEventByLimit: cfg.CutOff, CutOffEventByLimitField: cfg.CutField,
			Metric: &pipeline.MetricSettings{HoldDuration: time.Minute},
		}
		p := pipeline.New(name, settings, prometheus.NewRegistry(), h1pipe.QuietLogger())
		p.SetInput(&pipeline.InputPluginInfo{PluginStaticInfo: &pipeline.PluginStaticInfo{Type: "in"}, PluginRuntimeInfo: &pipeline.PluginRuntimeInfo{Plugin: inPlugin{}}})
		p.SetOutput(&pipeline.OutputPluginInfo{PluginStaticInfo: &pipeline.PluginStaticInfo{Type: "out"}, PluginRuntimeInfo: &pipeline.PluginRuntimeInfo{Plugin: out}})
		p.Start()
		var wg simrt.WaitGroup
		for rd, recs := range cfg.Readers {
			recs := recs
			wg.Add(1)
			simrt.Go(fmt.Sprintf("reader%d", rd), func() {
				defer wg.Done()
				for _, r := range recs {
					if r.Pause > 0 {
						simrt.Sleep(r.Pause)
					}
					ob := &obs{rec: r, callT: simrt.SimNow()}
					all = append(all, ob)
					data := recBytes(r, cfg.Decoder)
					ob.seqRet = p.In(pipeline.SourceID(r.Source), "src"+strconv.Itoa(r.Source), pipeline.NewOffsets(int64(r.ID)*1000, nil), data, r.New, nil)
					ob.done = true
				}
			})
		}
		wg.Wait()
		// everything accepted must come out; an injected stall of the process moves the clock without letting
		// anybody run, so wait for the condition (bounded), not for a fixed time
		accepted := func() int {
			n := 0
			for _, ob := range all {
				if ob.done && ob.seqRet != 0 {
					n++
				}
			}
			return n
		}
		for deadline := simrt.SimNow() + 30*time.Second; simrt.SimNow() < deadline && len(out.seen) < accepted(); {
			simrt.Sleep(100 * time.Millisecond)
		}
		simrt.Sleep(500 * time.Millisecond)
		if cfg.effThr() > 1 { // with threshold 1 the probe itself reaches the threshold
			// every source has been silent for a while: "a banned source that falls silent is unbanned within the
			// configured number of maintenance rounds plus one" - the rounds are the ANTISPAM interval's.
			// Injected stalls of the whole process stop here: a stalled process does not run its maintenance rounds
			// either, and the statement counts rounds, not wall time
			simrt.SetFaults(false)
			simrt.Sleep(8 * cfg.MaintIvl)
			srcs := map[int]bool{}
			for _, ob := range all {
				srcs[ob.rec.Source] = true
			}
			var ids []int
			for s := range srcs {
				ids = append(ids, s)
			}
			sort.Ints(ids)
			for _, s := range ids {
				probe := []byte(fmt.Sprintf(`{"id":%d}`, 900000+s))
				if cfg.Decoder == "raw" {
					probe = []byte("probe:" + strconv.Itoa(s))
				}
				if cfg.MaxSize > 0 && len(probe) > cfg.MaxSize {
					continue
				}
				if p.In(pipeline.SourceID(s), "src"+strconv.Itoa(s), pipeline.NewOffsets(int64(900000+s)*1000, nil), probe, false, nil) == 0 {
					silenceViol = append(silenceViol, s)
				}
			}
			simrt.Sleep(100 * time.Millisecond)
		}
		verdict = true
		simrt.Stop("done")
	})
	o.EndReason = reason
	if reason == "died" {
		o.Violate("C20", "died", "pipeline died: %s", sim.Died())
		return o
	}
	for _, s := range silenceViol {
		o.Violate("C20", "still-banned-after-silence", "source %d is still refused after 2 s + 8 antispam maintenance intervals (%v each) of silence; pipeline maintenance interval %v", s, cfg.MaintIvl, cfg.PipeIvl)
	}
	if !verdict {
		o.Inconclusive = "ended by " + reason
		return o
	}
	// reference admission model
	perSrc := map[int]int{}
	nontrivial := false
	for _, ob := range all {
		r := ob.rec
		data := recBytes(r, cfg.Decoder)
		refuse, why := false, ""
		cut := false
		switch {
		case len(data) == 0 || (len(data) == 1 && data[0] == '\n'):
			refuse, why = true, "empty"
		case cfg.MaxSize > 0 && len(data) > cfg.MaxSize:
			nontrivial = true
			if !cfg.CutOff {
				refuse, why = true, "oversize"
			} else {
				cut = true
				nl := data[len(data)-1] == '\n'
				data = append([]byte(nil), data[:cfg.MaxSize]...)
				if nl {
					data = append(data, '\n')
				}
			}
		}
		if !refuse && cfg.Decoder == "json" {
			body := strings.TrimSuffix(string(data), "\n")
			if r.Kind == "bad" || !strings.HasSuffix(body, "}") || cut && len(body) < len(strings.TrimSuffix(string(recBytes(r, cfg.Decoder)), "\n")) {
				refuse, why = true, "undecodable"
			}
		}
		accepted := ob.seqRet != 0
		perSrc[r.Source]++
		desc := func() string {
			return fmt.Sprintf("record id %d source %d %q (len %d), decoder %s, max_event_size %d cut_off %v field %q, antispam threshold %d (rule threshold %d) exception %v new_source %v", r.ID, r.Source, trunc(recBytes(r, cfg.Decoder)), len(recBytes(r, cfg.Decoder)), cfg.Decoder, cfg.MaxSize, cfg.CutOff, cfg.CutField, cfg.Threshold, cfg.RuleThr, cfg.Exception, r.New)
		}
		if refuse {
			if accepted {
				o.Violate("C20", "accepted-but-must-refuse/"+why, "In accepted a record the settings refuse (%s): %s", why, desc())
			}
			continue
		}
		if !accepted {
			// only the antispam may explain this refusal
			// threshold 0 means "blocked": every record of a source without a matching exception is refused
			exempt := cfg.Exception && strings.Contains(string(data), "EXEMPT") // the antispam sees the record after cutting
			thr := cfg.effThr()
			canSpam := thr >= 0 && !(r.New && thr > 0) && !exempt
			if thr > 0 && perSrc[r.Source] < thr {
				canSpam = false // fewer records than the threshold have arrived from this source at all
			}
			if !canSpam {
				sig := "refused-without-reason"
				switch {
				case thr < 0:
					sig += "/antispam-disabled"
				case exempt:
					sig += "/matching-exception"
				case r.New:
					sig += "/new-source"
				default:
					sig += "/below-threshold"
				}
				o.Violate("C20", sig, "In refused a record nothing allows refusing: %s", desc())
			}
			continue
		}
		// delivered content
		got, ok := out.seen[r.ID]
		if !ok {
			o.Violate("C20", "accepted-but-not-delivered", "In accepted the record but it never reached the output: %s; output saw %v", desc(), out.raw)
			continue
		}
		switch cfg.Decoder {
		case "json":
			want := strings.TrimSuffix(string(data), "\n")
			if cut && cfg.CutField != "" {
				want = strings.TrimSuffix(want, "}") + fmt.Sprintf(`,%q:true}`, cfg.CutField)
			}
			if got != want {
				o.Violate("C20", "record-altered", "delivered %q, expected %q: %s", got, want, desc())
			}
		case "raw":
			want := strings.TrimSuffix(string(data), "\n")
			wantJS := fmt.Sprintf(`{"message":%q}`, want)
			if cut && cfg.CutField != "" {
				wantJS = fmt.Sprintf(`{"message":%q,%q:true}`, want, cfg.CutField)
			}
			if got != wantJS {
				sig := "record-altered"
				if !r.Newline && !cut {
					sig += "/raw-decoder-without-trailing-newline"
				} else if cut {
					sig += "/cut"
				}
				o.Violate("C20", sig, "delivered %s, expected %s: %s", got, wantJS, desc())
			}
		}
	}
	o.NonTrivial["C20"] = nontrivial || cfg.Threshold >= 0
	o.Summary = map[string]any{"records": len(all), "decoder": cfg.Decoder, "max_event_size": cfg.MaxSize, "threshold": cfg.Threshold}
	return o
}

func trunc(b []byte) string {
	if len(b) > 80 {
		return string(b[:80]) + "..."
	}
	return string(b)
}

// ---------------------------------------------------------------------------
// component: antispam.Antispammer with exact rounds

type AOp struct {
	Kind   string        `json:"kind"` // ev | maint | silence
	Source int           `json:"src"`
	New    bool          `json:"new,omitempty"`
	Exempt bool          `json:"exempt,omitempty"`
	Pause  time.Duration `json:"pause,omitempty"`
}

type ACfg struct {
	Sim           simrt.Config  `json:"sim"`
	Threshold     int           `json:"threshold"`
	Unban         int           `json:"unban_iterations"`
	Exception     bool          `json:"exception"`
	Feeders       [][]AOp       `json:"feeders"` // concurrent event feeders
	Rounds        int           `json:"rounds"`  // maintenance rounds driven by the harness
	RoundGap      time.Duration `json:"round_gap"`
	SilenceCheck  bool          `json:"silence_check"`
	RuleThreshold int           `json:"rule_threshold,omitempty"` // >0: an antispam rule with its own threshold for the sources listed in RuledSources
	RuledSources  []int         `json:"ruled_sources,omitempty"`
	NameException bool          `json:"name_exception,omitempty"` // a check_source_name exception is listed in front of the content exception
	// InvertedName: that source-name exception is inverted ("every source whose name does not start with trusted- is exempt"),
	// so every source of the run is exempt, whatever the length of its name
	InvertedName bool `json:"inverted_name_exception,omitempty"`
	// Rule2: a second rule behind the first one that matches every record and has a lower threshold (0 = blocked);
	// the first matching rule decides, so it applies only to the sources the first rule does not match
	Rule2          bool `json:"rule2,omitempty"`
	Rule2Threshold int  `json:"rule2_threshold,omitempty"`
}

func (c *ACfg) SimCfg() *simrt.Config { return &c.Sim }

type HA struct{}

func (h *HA) Name() string     { return "h8antispam" }
func (h *HA) Props() []string  { return []string{"C20"} }
func (h *HA) NewCfg() core.Cfg { return &ACfg{} }

func (h *HA) Gen(rng *rand.Rand, tier, prop string) core.Cfg {
	c := &ACfg{}
	c.Sim = simrt.Config{PSwitch: core.Pick(rng, 0.05, 0.2, 0.5), StepCost: time.Microsecond, MaxSteps: 500_000, Horizon: time.Hour, Boost: map[string]float64{"atomic": 2}}
	c.Threshold = core.Pick(rng, -1, 0, 1, 2, 3, 5, 10)
	c.Unban = core.Pick(rng, 1, 2, 4)
	c.Exception = core.Chance(rng, 0.4)
	c.Rounds = core.Between(rng, 1, 8)
	c.RoundGap = core.DurBetween(rng, 10*time.Millisecond, 200*time.Millisecond)
	c.SilenceCheck = core.Chance(rng, 0.5)
	nf := core.Between(rng, 1, 3)
	nsrc := core.Between(rng, 1, 3)
	if c.Exception {
		c.NameException = core.Chance(rng, 0.5)
		c.InvertedName = c.NameException && core.Chance(rng, 0.4)
	} else if c.Threshold > 1 && core.Chance(rng, 0.4) {
		// rules replace the exceptions; a rule's threshold is lower than the global one
		c.RuleThreshold = core.Between(rng, 1, c.Threshold-1)
		for sidx := 1; sidx <= nsrc; sidx++ {
			if core.Chance(rng, 0.6) {
				c.RuledSources = append(c.RuledSources, sidx)
			}
		}
		if core.Chance(rng, 0.5) {
			c.Rule2 = true
			c.Rule2Threshold = rng.IntN(c.RuleThreshold) // 0 (blocked) .. RuleThreshold-1
		}
	}
	for f := 0; f < nf; f++ {
		var ops []AOp
		n := core.Between(rng, 1, 40)
		for i := 0; i < n; i++ {
			op := AOp{Kind: "ev", Source: 1 + rng.IntN(nsrc)}
			if core.Chance(rng, 0.04) {
				op.New = true
			}
			if c.Exception && core.Chance(rng, 0.2) {
				op.Exempt = true
			}
			if core.Chance(rng, 0.3) {
				op.Pause = core.DurBetween(rng, time.Millisecond, c.RoundGap)
			}
			ops = append(ops, op)
		}
		c.Feeders = append(c.Feeders, ops)
	}
	return c
}

func (h *HA) Shrink(cc core.Cfg) []core.Cfg {
	c := cc.(*ACfg)
	var out []core.Cfg
	for i := range c.Feeders {
		if n := len(c.Feeders[i]); n > 1 {
			d := *c
			d.Feeders = append([][]AOp(nil), c.Feeders...)
			d.Feeders[i] = d.Feeders[i][:n/2]
			out = append(out, &d)
		}
		if len(c.Feeders) > 1 {
			d := *c
			d.Feeders = append(append([][]AOp(nil), c.Feeders[:i]...), c.Feeders[i+1:]...)
			out = append(out, &d)
		}
	}
	if c.Rounds > 1 {
		d := *c
		d.Rounds--
		out = append(out, &d)
	}
	return out
}

func (h *HA) Run(cc core.Cfg, sim *simrt.Sim) *core.Outcome {
	cfg := cc.(*ACfg)
	o := &core.Outcome{NonTrivial: map[string]bool{}, Probes: map[string]int{}}
	verdict := false
	bans := 0
	reason := sim.Run(func() {
		seq++
		var exc antispam.Exceptions
		if cfg.Exception {
			exc = antispam.Exceptions{{RuleSet: matchrule.RuleSet{Name: "vip", Cond: matchrule.CondAnd, Rules: []matchrule.Rule{{Values: []string{"EXEMPT"}, Mode: matchrule.ModeContains}}}}}
			if cfg.NameException {
				// matches no source of this run; it only has to be looked at first
				exc = append(antispam.Exceptions{{RuleSet: matchrule.RuleSet{Name: "byname", Cond: matchrule.CondAnd, Rules: []matchrule.Rule{{Values: []string{"trusted-"}, Mode: matchrule.ModePrefix, Invert: cfg.InvertedName}}}, CheckSourceName: true}}, exc...)
			}
			exc.Prepare()
		}
		var rules antispam.Rules
		ruled := map[int]bool{}
		if cfg.RuleThreshold > 0 {
			chk, err := doif.NewFromMap(map[string]any{"op": "contains", "field": "event", "values": []any{"RULED"}})
			if err != nil {
				panic(err)
			}
			rules = antispam.Rules{{Name: "r1", Threshold: cfg.RuleThreshold, DoIfChecker: chk}}
			if cfg.Rule2 {
				all, err := doif.NewFromMap(map[string]any{"op": "contains", "field": "event", "values": []any{"\"m\""}})
				if err != nil {
					panic(err)
				}
				rules = append(rules, antispam.Rule{Name: "r2", Threshold: cfg.Rule2Threshold, DoIfChecker: all})
			}
			for _, sidx := range cfg.RuledSources {
				ruled[sidx] = true
			}
		}
		thresholdOf := func(src int) int {
			if ruled[src] {
				return cfg.RuleThreshold
			}
			if cfg.Rule2 {
				return cfg.Rule2Threshold // matches every record the first rule did not take
			}
			return cfg.Threshold
		}
		// source names: short ones and one longer than the exception's value
		nameOf := func(src int) string {
			if src == 2 {
				return "source-number-" + strconv.Itoa(src)
			}
			return "src" + strconv.Itoa(src)
		}
		a := antispam.NewAntispammer(&antispam.Options{MaintenanceInterval: time.Hour, Threshold: cfg.Threshold, UnbanIterations: cfg.Unban, Exceptions: exc, Rules: rules,
			Logger: h1pipe.QuietLogger(), MetricsController: metric.NewCtl(fmt.Sprintf("h8a_%d", seq), prometheus.NewRegistry(), 0, 0)})
		// per source: events since the start of the previous maintenance round, ban state as observed
		type call struct{ start, ret int }
		type srcState struct {
			calls      []*call // every IsSpam call of the source: step it began, step it returned (0 = still running)
			banned     bool
			everBanned bool
		}
		var roundStart []int // step at which each maintenance round began
		st := map[int]*srcState{}
		get := func(s int) *srcState {
			if st[s] == nil {
				st[s] = &srcState{}
			}
			return st[s]
		}
		var wg simrt.WaitGroup
		feeding := 0
		for f, ops := range cfg.Feeders {
			ops := ops
			wg.Add(1)
			feeding++
			simrt.Go(fmt.Sprintf("feeder%d", f), func() {
				defer wg.Done()
				defer func() { feeding-- }()
				for _, op := range ops {
					if op.Pause > 0 {
						simrt.Sleep(op.Pause)
					}
					s := get(op.Source)
					ev := []byte(`{"m":"x"}`)
					if op.Exempt {
						ev = []byte(`{"m":"EXEMPT"}`)
					}
					if ruled[op.Source] {
						ev = []byte(`{"m":"x","tag":"RULED"}`)
					}
					thr := thresholdOf(op.Source)
					cl := &call{start: simrt.Steps()}
					s.calls = append(s.calls, cl)
					spam := a.IsSpam(strconv.Itoa(op.Source), nameOf(op.Source), op.New, ev, time.Time{}, nil)
					cl.ret = simrt.Steps()
					if !spam {
						// an exempt record is accepted during a ban too and a new-source flag
						// resets the counter: only an ordinary accepted record shows the ban is over
						if !op.Exempt {
							s.banned = false
						}
						continue
					}
					switch {
					case cfg.Threshold < 0:
						o.Violate("C20", "spam-with-antispam-disabled", "IsSpam returned true although the threshold is %d", cfg.Threshold)
					case (op.Exempt || cfg.InvertedName) && cfg.Exception:
						o.Violate("C20", "spam-despite-exception", "IsSpam returned true for an event matching an exception (source name %q, inverted source-name exception: %v)", nameOf(op.Source), cfg.InvertedName)
					case op.New && thr > 0:
						o.Violate("C20", "spam-for-new-source", "IsSpam returned true for a new source")
					case !s.banned && thr > 0:
						// transition into the ban: at least `threshold` events since the start of the previous round
						// records that arrived since the start of the previous round, counting a call that was
						// still in progress at that moment (its increment may land later)
						from := 0
						if len(roundStart) >= 2 {
							from = roundStart[len(roundStart)-2]
						}
						n := 0
						for _, c := range s.calls {
							if c.ret == 0 || c.ret >= from {
								n++
							}
						}
						if n < thr {
							sig := "banned-below-threshold"
							if s.everBanned {
								sig += "/re-ban-after-unban-with-residual-counter"
							}
							o.Violate("C20", sig, "source %d banned after only %d events since the start of the previous maintenance round, threshold %d", op.Source, n, thr)
						}
						bans++
					}
					s.banned = true
					s.everBanned = true
				}
			})
		}
		for r := 0; r < cfg.Rounds; r++ {
			simrt.Sleep(cfg.RoundGap)
			roundStart = append(roundStart, simrt.Steps())
			a.Maintenance()
		}
		wg.Wait()
		if cfg.SilenceCheck && cfg.Threshold > 0 {
			// everybody falls silent: after unban iterations + 1 rounds every source is accepted again
			for r := 0; r < cfg.Unban+1; r++ {
				a.Maintenance()
			}
			var srcs []int
			for src := range st {
				srcs = append(srcs, src)
			}
			sort.Ints(srcs) // harness code is not rewritten: map order must not decide the order of simulated operations
			for _, src := range srcs {
				probe := []byte(`{"m":"x"}`)
				if ruled[src] {
					probe = []byte(`{"m":"x","tag":"RULED"}`)
				}
				if a.IsSpam(strconv.Itoa(src), nameOf(src), false, probe, time.Time{}, nil) && thresholdOf(src) > 1 {
					o.Violate("C20", "still-banned-after-silence", "source %d is still banned after %d silent maintenance rounds (unban iterations %d)", src, cfg.Unban+1, cfg.Unban)
				}
			}
		}
		verdict = true
		simrt.Stop("done")
	})
	o.EndReason = reason
	if reason == "died" {
		o.Violate("C20", "died", "antispammer died: %s", sim.Died())
	} else if !verdict {
		o.Inconclusive = "ended by " + reason
	}
	o.NonTrivial["C20"] = bans > 0 || cfg.Threshold < 0 || cfg.Exception
	o.Probes["bans"] += bans
	o.Summary = map[string]any{"threshold": cfg.Threshold, "unban": cfg.Unban, "rounds": cfg.Rounds, "bans": bans}
	return o
}
