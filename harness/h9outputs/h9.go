// Package h9outputs is harness H7 of the design ("outputs"): real output
// plugins (elasticsearch with and without split, http, splunk over the
// simulated fasthttp endpoint; kafka over the simulated broker) fed with
// batches of events with adversarial content; the simulated sink parses every
// payload with a strict JSON parser in the sink's framing. Decides C19.
package h9outputs

import (
	"bytes"
	"encoding/json"
	"fmt"
	"io"
	"math/rand/v2"
	"reflect"
	"sort"
	"strconv"
	"strings"
	"time"

	"github.com/ozontech/file.d/fd"
	"github.com/ozontech/file.d/metric"
	"github.com/ozontech/file.d/pipeline"
	_ "github.com/ozontech/file.d/plugin/output/elasticsearch"
	_ "github.com/ozontech/file.d/plugin/output/file"
	_ "github.com/ozontech/file.d/plugin/output/gelf"
	_ "github.com/ozontech/file.d/plugin/output/http"
	_ "github.com/ozontech/file.d/plugin/output/kafka"
	_ "github.com/ozontech/file.d/plugin/output/loki"
	_ "github.com/ozontech/file.d/plugin/output/splunk"
	"github.com/ozontech/file.d/zz_verifharness/core"
	"github.com/ozontech/file.d/zz_verifharness/h1pipe"
	insaneJSON "github.com/ozontech/insane-json"
	"github.com/prometheus/client_golang/prometheus"
	"verif/simrt"
	"verif/simrt/simfasthttp"
	"verif/simrt/simkgo"
	"verif/simrt/simnet"
	"verif/simrt/simos"
)

func init() { core.Register(&H{}) }

type Ev struct {
	ID     int      `json:"id"`
	Fields []string `json:"fields"` // values of fields f0..fn (adversarial strings)
	Svc    string   `json:"svc"`    // routing field (index / topic)
	HasSvc bool     `json:"has_svc"`
	Parent bool     `json:"parent,omitempty"` // child-parent kind: must be omitted from payloads
	TS     bool     `json:"ts,omitempty"`     // carries a "ts" field (unix nanoseconds as a string; loki's timestamp field)
	// gelf only
	Host    string `json:"host,omitempty"`
	HasHost bool   `json:"has_host,omitempty"`
	Level   string `json:"level,omitempty"` // "", error, info, warn, bogus, #3 (the number 3)
	Time    string `json:"time,omitempty"`  // "", rfc (RFC3339Nano string), num (seconds as a number), junk

	Pause time.Duration `json:"pause,omitempty"`
}

// The adversarial strings of an event hold invalid UTF-8 on purpose: they are written to the replay file
// byte for byte (core.Bin), not the way encoding/json would mangle them.
func (e Ev) MarshalJSON() ([]byte, error) {
	type plain Ev
	aux := struct {
		plain
		Fields []core.Bin `json:"fields"`
		Svc    core.Bin   `json:"svc"`
		Host   core.Bin   `json:"host,omitempty"`
	}{plain: plain(e), Svc: core.Bin(e.Svc), Host: core.Bin(e.Host)}
	for _, f := range e.Fields {
		aux.Fields = append(aux.Fields, core.Bin(f))
	}
	return json.Marshal(aux)
}

func (e *Ev) UnmarshalJSON(data []byte) error {
	type plain Ev
	aux := struct {
		*plain
		Fields []core.Bin `json:"fields"`
		Svc    core.Bin   `json:"svc"`
		Host   core.Bin   `json:"host,omitempty"`
	}{plain: (*plain)(e)}
	if err := json.Unmarshal(data, &aux); err != nil {
		return err
	}
	e.Fields = nil
	for _, f := range aux.Fields {
		e.Fields = append(e.Fields, string(f))
	}
	e.Svc, e.Host = string(aux.Svc), string(aux.Host)
	return nil
}

type Cfg struct {
	Sim       simrt.Config  `json:"sim"`
	Sink      string        `json:"sink"` // es | http | splunk | kafka
	Split     bool          `json:"split_batch"`
	Gzip      bool          `json:"gzip"`
	BatchSize int           `json:"batch_size"`
	Workers   int           `json:"workers"`
	Flush     time.Duration `json:"flush"`
	Limit413  int           `json:"limit_413"` // >0: the endpoint answers 413 to bodies larger than this
	Retry     int           `json:"retry"`
	Copy      bool          `json:"copy_fields,omitempty"`  // splunk: copy svc to fields.svc of the envelope
	Reconnect time.Duration `json:"reconnect,omitempty"`    // gelf: reconnect_interval
	Retention time.Duration `json:"retention,omitempty"`    // file: retention_interval (the file is sealed and a new one started)
	DLQ       bool          `json:"dead_queue,omitempty"`   // a dead-queue output is configured: a given-up batch is observable there
	Raw       bool          `json:"raw_encoding,omitempty"` // http: encoding raw, field f0 (one JSON value per line; an event without f0 has nothing to send)
	Events    []Ev          `json:"events"`
}

func (c *Cfg) SimCfg() *simrt.Config { return &c.Sim }

type H struct{}

func (h *H) Name() string     { return "h9outputs" }
func (h *H) Props() []string  { return []string{"C19", "C09", "C05"} }
func (h *H) NewCfg() core.Cfg { return &Cfg{} }

var nasty = []string{"plain", "", "with \"quotes\"", "back\\slash", "new\nline", "tab\tand\rcr", "ctl\x01\x1f", "utf8 ünï", "bad\xff\xfeutf", "}{", "\"}}\n{\"index\"", strings.Repeat("long", 50), "a/b-c_d", "sp ace", "%", "\\\"", " "}

func (h *H) Gen(rng *rand.Rand, tier, prop string) core.Cfg {
	c := &Cfg{}
	c.Sim = simrt.Config{PSwitch: core.Pick(rng, 0.02, 0.1, 0.3), StepCost: time.Microsecond, MaxSteps: 1_500_000, Horizon: time.Hour, Faults: map[string]float64{}}
	c.Sink = core.Pick(rng, "es", "es", "http", "splunk", "kafka", "loki", "gelf", "file")
	c.BatchSize = core.Between(rng, 1, 8)
	c.Workers = core.Pick(rng, 1, 1, 2, 3)
	c.Flush = core.DurBetween(rng, 10*time.Millisecond, 300*time.Millisecond)
	c.Retry = core.Pick(rng, 0, 2, 5)
	c.Gzip = c.Sink != "kafka" && c.Sink != "gelf" && c.Sink != "file" && core.Chance(rng, 0.2)
	if c.Sink == "file" {
		c.Retention = core.Pick(rng, 20*time.Millisecond, 100*time.Millisecond, 100*time.Millisecond, 300*time.Millisecond, time.Second, time.Hour)
		c.Flush = core.DurBetween(rng, 2*time.Millisecond, 60*time.Millisecond)
		// an empty file past its seal time makes the plugin's ticker loop without pause (see DESIGN.md): keep such loops cheap in steps
		c.Sim.StepCost = 50 * time.Microsecond
	}
	if c.Sink == "gelf" {
		c.Reconnect = core.Pick(rng, 50*time.Millisecond, time.Second, time.Minute)
	}
	c.Copy = c.Sink == "splunk" && core.Chance(rng, 0.6)
	if c.Sink == "es" || c.Sink == "http" {
		c.Split = core.Chance(rng, 0.5)
		if core.Chance(rng, 0.5) {
			c.Limit413 = core.Between(rng, 60, 600)
		}
	}
	if c.Sink != "file" && core.Chance(rng, 0.3) {
		c.Sim.Faults["sink.status5xx"] = core.Pick(rng, 0.05, 0.2)
		c.Sim.Faults["sink.transport"] = 0.05
		if c.Sink == "gelf" {
			c.Sim.Faults["net.dialerr"] = core.Pick(rng, 0.0, 0.1, 0.3)
			c.Sim.Faults["net.writeerr"] = core.Pick(rng, 0.0, 0.1, 0.3)
			c.Sim.Faults["net.shortwrite"] = core.Pick(rng, 0.0, 0.1, 0.3)
		}
	}
	c.Sim.QuietAt = 20 * time.Second
	c.Raw = c.Sink == "http" && core.Chance(rng, 0.35)
	c.DLQ = c.Sink != "file" && core.Chance(rng, 0.5)
	if prop == "C09" || prop == "C05" {
		// C05 here: no event is finalised (returned to the pool) twice, which needs the dead-queue paths as well
		// the retry/dead-queue routing of the real outputs: a dead queue makes a give-up observable
		for c.Sink == "file" {
			c.Sink = core.Pick(rng, "es", "http", "splunk", "kafka", "loki", "gelf")
		}
		c.Retention, c.Gzip = 0, false
		c.Sim.StepCost = time.Microsecond
		c.DLQ = true
		c.Sim.Faults["sink.status5xx"] = core.Pick(rng, 0.1, 0.3, 0.6)
		c.Sim.Faults["sink.transport"] = core.Pick(rng, 0.0, 0.1)
		if c.Sink == "gelf" {
			c.Sim.Faults["net.dialerr"] = core.Pick(rng, 0.1, 0.3)
			c.Sim.Faults["net.writeerr"] = core.Pick(rng, 0.1, 0.3)
			c.Sim.Faults["net.shortwrite"] = core.Pick(rng, 0.0, 0.2)
			if c.Reconnect == 0 {
				c.Reconnect = time.Second
			}
		}
	}
	n := core.Between(rng, 1, 30)
	if tier == "thorough" {
		n = core.Between(rng, 1, 100)
	}
	for i := 0; i < n; i++ {
		e := Ev{ID: i + 1}
		nf := core.Between(rng, 0, 3)
		for f := 0; f < nf; f++ {
			e.Fields = append(e.Fields, nasty[rng.IntN(len(nasty))])
		}
		e.HasSvc = core.Chance(rng, 0.8)
		if e.HasSvc {
			if core.Chance(rng, 0.7) {
				e.Svc = core.Pick(rng, "app", "db", "web-1")
			} else {
				e.Svc = nasty[rng.IntN(len(nasty))]
			}
		}
		if core.Chance(rng, 0.08) {
			e.Parent = true
		}
		if c.Sink == "loki" && core.Chance(rng, 0.5) {
			e.TS = true
		}
		if c.Sink == "gelf" {
			if core.Chance(rng, 0.6) {
				e.HasHost = true
				e.Host = core.Pick(rng, "node-1", "node-1", " ", "", "h\"q")
			}
			e.Level = core.Pick(rng, "", "", "error", "info", "warn", "bogus", "#3")
			e.Time = core.Pick(rng, "", "", "rfc", "num", "junk")
		}
		if core.Chance(rng, 0.3) {
			e.Pause = core.DurBetween(rng, time.Millisecond, 2*c.Flush)
		}
		if c.Sink == "file" && core.Chance(rng, 0.4) {
			e.Pause = core.DurBetween(rng, time.Millisecond, c.Retention/2+time.Millisecond) // let seal-ups fall between and into the writes
			if e.Pause > 500*time.Millisecond {
				e.Pause = 500 * time.Millisecond
			}
		}
		if c.Raw && len(e.Fields) > 0 {
			e.Fields[0] = fmt.Sprintf("m%d ", e.ID) + e.Fields[0] // the raw line carries nothing but this value: it must name its event
		}
		c.Events = append(c.Events, e)
	}
	return c
}

func (h *H) Shrink(cc core.Cfg) []core.Cfg {
	c := cc.(*Cfg)
	var out []core.Cfg
	clone := func() *Cfg {
		d := *c
		d.Events = make([]Ev, len(c.Events))
		for i, e := range c.Events {
			e.Fields = append([]string(nil), e.Fields...)
			d.Events[i] = e
		}
		return &d
	}
	n := len(c.Events)
	if n > 1 {
		d := clone()
		d.Events = d.Events[:n/2]
		out = append(out, d)
		d = clone()
		d.Events = d.Events[n/2:]
		out = append(out, d)
	}
	if n <= 12 {
		for i := 0; i < n; i++ {
			d := clone()
			d.Events = append(d.Events[:i:i], d.Events[i+1:]...)
			out = append(out, d)
		}
		for i := 0; i < n; i++ {
			if len(c.Events[i].Fields) > 0 {
				d := clone()
				d.Events[i].Fields = d.Events[i].Fields[:len(d.Events[i].Fields)-1]
				out = append(out, d)
			}
			if c.Events[i].Svc != "app" && c.Events[i].HasSvc {
				d := clone()
				d.Events[i].Svc = "app"
				out = append(out, d)
			}
			if c.Events[i].Pause != 0 {
				d := clone()
				d.Events[i].Pause = 0
				out = append(out, d)
			}
		}
	}
	if c.Workers > 1 {
		d := clone()
		d.Workers = 1
		out = append(out, d)
	}
	if c.Gzip {
		d := clone()
		d.Gzip = false
		out = append(out, d)
	}
	return out
}

func evJSON(e Ev) string {
	m := map[string]any{"id": e.ID}
	for i, f := range e.Fields {
		m[fmt.Sprintf("f%d", i)] = f
	}
	if e.HasSvc {
		m["svc"] = e.Svc
	}
	if e.TS {
		m["ts"] = tsOf(e)
	}
	if e.HasHost {
		m["host"] = e.Host
	}
	switch e.Level {
	case "":
	case "#3":
		m["level"] = 3
	default:
		m["level"] = e.Level
	}
	switch e.Time {
	case "rfc":
		m["time"] = gelfTime(e).Format(time.RFC3339Nano)
	case "num":
		m["time"] = rawNumber(strconv.FormatFloat(float64(gelfTime(e).UnixNano())/1e9, 'f', 3, 64))
	case "junk":
		m["time"] = "yesterday"
	}
	// encoding/json replaces invalid UTF-8; build by hand to keep raw bytes
	var sb strings.Builder
	sb.WriteString("{")
	keys := make([]string, 0, len(m))
	for k := range m {
		keys = append(keys, k)
	}
	sort.Strings(keys)
	for i, k := range keys {
		if i > 0 {
			sb.WriteString(",")
		}
		sb.WriteString(`"` + k + `":`)
		switch v := m[k].(type) {
		case int:
			fmt.Fprintf(&sb, "%d", v)
		case string:
			sb.WriteString(rawJSONString(v))
		case rawNumber:
			sb.WriteString(string(v))
		}
	}
	sb.WriteString("}")
	return sb.String()
}

type rawNumber string

// gelfTime is the event's own time (in the past of the simulated clock, after 2001).
func gelfTime(e Ev) time.Time {
	return time.Unix(1600000000+int64(e.ID)*60, 123000000).UTC()
}

func gelfBlank(s string) bool {
	return strings.TrimFunc(s, func(c rune) bool { return strings.ContainsRune(" \t\n\r\u000B\f\u001C\u001D\u001E\u001F", c) }) == ""
}

// gelfWant is the GELF 1.1 message of an event under the harness's gelf configuration (host_field host,
// short_message_field f0 with default "none", full_message_field f1, timestamp_field time, level_field level):
// the mandatory fields, and every other field as an additional field "_name" holding a string or a number.
// The time stamp is compared separately (key "timestamp" is left out here).
func gelfWant(e Ev) map[string]any {
	w := map[string]any{"version": "1.1", "_id": float64(e.ID)}
	w["host"] = "unknown"
	if e.HasHost && !gelfBlank(e.Host) {
		w["host"] = e.Host
	}
	w["short_message"] = "none"
	if len(e.Fields) > 0 && !gelfBlank(e.Fields[0]) {
		w["short_message"] = e.Fields[0]
	}
	if len(e.Fields) > 1 {
		w["full_message"] = e.Fields[1]
	}
	if len(e.Fields) > 2 {
		w["_f2"] = e.Fields[2]
	}
	if e.HasSvc {
		w["_svc"] = e.Svc
	}
	switch e.Level {
	case "":
	case "error", "#3":
		w["level"] = float64(3)
	case "warn":
		w["level"] = float64(4)
	default: // info and unknown names
		w["level"] = float64(6)
	}
	// through encoding/json, so that invalid UTF-8 compares like on the receiving side
	b, _ := json.Marshal(w)
	var out map[string]any
	_ = json.Unmarshal(b, &out)
	return out
}

// tsOf is the event's own time stamp in loki's format (unix nanoseconds, in the past of the simulated clock).
func tsOf(e Ev) string { return strconv.Itoa(1600000000000000000 + e.ID) }

// rawJSONString escapes what JSON requires and keeps every other byte as is
// (including invalid UTF-8, as a log line may contain).
func rawJSONString(s string) string {
	var sb strings.Builder
	sb.WriteByte('"')
	for i := 0; i < len(s); i++ {
		c := s[i]
		switch {
		case c == '"':
			sb.WriteString(`\"`)
		case c == '\\':
			sb.WriteString(`\\`)
		case c == '\n':
			sb.WriteString(`\n`)
		case c == '\r':
			sb.WriteString(`\r`)
		case c == '\t':
			sb.WriteString(`\t`)
		case c < 0x20:
			fmt.Fprintf(&sb, `\u%04x`, c)
		default:
			sb.WriteByte(c)
		}
	}
	sb.WriteByte('"')
	return sb.String()
}

// norm decodes a JSON document with the standard library (invalid UTF-8
// becomes U+FFFD on both sides of a comparison).
func norm(b []byte) (any, error) {
	dec := json.NewDecoder(bytes.NewReader(b))
	var v any
	if err := dec.Decode(&v); err != nil {
		return nil, err
	}
	if dec.More() {
		return nil, fmt.Errorf("trailing data after the JSON document")
	}
	return v, nil
}

type delivery struct {
	id      int
	request int
	ok      bool // request answered 2xx
	pos     int
}

type run struct {
	cfg      *Cfg
	o        *core.Outcome
	byID     map[int]Ev
	want     map[int]any
	requests int
	deliv    map[int][]delivery
	commits  map[int]int
	events   map[*pipeline.Event]int
	gaveUp   bool
	tooLarge map[int]bool
	had5xx   bool
	had413   int
	inDLQ    map[int]bool
	// commits issued by the main output's batcher (the dead-queue stub commits what it is handed itself)
	mainCommits map[int]int
}

// dlq is the dead-queue output of the runs that configure one: it records which events a given-up batch
// handed over and commits them (the main output does not commit a batch it routed to the dead queue).
type dlq struct{ r *run }

func (d *dlq) Start(pipeline.AnyConfig, *pipeline.OutputPluginParams) {}
func (d *dlq) Stop()                                                  {}
func (d *dlq) Out(e *pipeline.Event) {
	if id, ok := d.r.events[e]; ok {
		d.r.inDLQ[id] = true
		d.r.commits[id]++
	}
}

type ctl struct{ r *run }

func (c *ctl) Commit(e *pipeline.Event) {
	if id, ok := c.r.events[e]; ok {
		c.r.commits[id]++
		c.r.mainCommits[id]++
	}
}
func (c *ctl) Error(string) {}

var seq int

func (r *run) viol(sig, f string, a ...any) { r.o.Violate("C19", sig, f, a...) }

// checkDoc compares one delivered document with the event it claims to be.
func (r *run) checkDoc(doc any, req int, pos int, ok bool, where string) int {
	m, isObj := doc.(map[string]any)
	if !isObj {
		r.viol("document-not-an-object", "%s: document #%d is not a JSON object: %v", where, pos, doc)
		return -1
	}
	idf, has := m["id"].(float64)
	if !has {
		r.viol("document-without-id", "%s: document #%d has no id: %v", where, pos, doc)
		return -1
	}
	id := int(idf)
	want, known := r.want[id]
	if !known {
		r.viol("unknown-document", "%s: document #%d has unknown id %d", where, pos, id)
		return -1
	}
	if r.byID[id].Parent {
		r.viol("split-parent-in-payload", "%s: the parent event of a split (id %d) appears in the payload", where, id)
	}
	if !reflect.DeepEqual(want, doc) {
		r.viol("document-altered", "%s: document of id %d is %v, the event is %v", where, id, doc, want)
	}
	r.deliv[id] = append(r.deliv[id], delivery{id: id, request: req, ok: ok, pos: pos})
	return id
}

func (r *run) endpoint(c *simfasthttp.Call) simfasthttp.Reply {
	r.requests++
	req := r.requests
	cfg := r.cfg
	status := 200
	if cfg.Limit413 > 0 && len(c.Body) > cfg.Limit413 {
		status = 413
		r.had413++
	} else if simrt.Decide("sink.status5xx") {
		status = 503
		r.had5xx = true
	}
	if simrt.Decide("sink.transport") {
		r.had5xx = true
		return simfasthttp.Reply{Err: io.ErrUnexpectedEOF}
	}
	ok := status == 200
	where := fmt.Sprintf("%s request #%d (%d bytes, status %d)", cfg.Sink, req, len(c.Body), status)
	var ids []int
	switch cfg.Sink {
	case "es":
		lines := bytes.Split(c.Body, []byte("\n"))
		if len(lines) > 0 && len(lines[len(lines)-1]) == 0 {
			lines = lines[:len(lines)-1]
		}
		if len(lines)%2 != 0 {
			r.viol("bulk-odd-lines", "%s: %d lines, action and document lines must alternate; body %q", where, len(lines), trunc(c.Body))
			break
		}
		for i := 0; i+1 < len(lines); i += 2 {
			act, err := norm(lines[i])
			if err != nil {
				sig := "action-line-not-json"
				// which event? the document line tells
				if doc, derr := norm(lines[i+1]); derr == nil {
					if m, ok := doc.(map[string]any); ok {
						if idf, ok := m["id"].(float64); ok {
							if strings.ContainsAny(r.byID[int(idf)].Svc, "\"\\\x00\x01\x02\x03\x04\x05\x06\x07\x08\t\n\x0b\x0c\r\x0e\x0f\x10\x11\x12\x13\x14\x15\x16\x17\x18\x19\x1a\x1b\x1c\x1d\x1e\x1f") {
								sig += "/routing-value-needs-escaping"
							}
						}
					}
				}
				r.viol(sig, "%s: action line #%d is not valid JSON (%v): %q", where, i/2, err, lines[i])
				continue
			}
			am, _ := act.(map[string]any)
			idx, _ := am["index"].(map[string]any)
			if idx == nil {
				idx, _ = am["create"].(map[string]any)
			}
			if _, has := idx["_index"].(string); !has || len(am) != 1 {
				r.viol("action-line-shape", "%s: action line #%d does not name an index: %q", where, i/2, lines[i])
			}
			doc, err := norm(lines[i+1])
			if err != nil {
				r.viol("document-not-json", "%s: document line #%d is not valid JSON (%v): %q", where, i/2, err, lines[i+1])
				continue
			}
			ids = append(ids, r.checkDoc(doc, req, i/2, ok, where))
		}
	case "http":
		lines := bytes.Split(c.Body, []byte("\n"))
		if len(lines) > 0 && len(lines[len(lines)-1]) == 0 {
			lines = lines[:len(lines)-1]
		}
		if cfg.Raw {
			// one line per event of the batch: the JSON value of its f0 field, or an empty line for an event without one
			for i, ln := range lines {
				if len(ln) == 0 {
					continue
				}
				doc, err := norm(ln)
				if err != nil {
					r.viol("document-not-json", "%s: line #%d is not valid JSON (%v): %q", where, i, err, ln)
					continue
				}
				str, isStr := doc.(string)
				var id int
				if n, _ := fmt.Sscanf(str, "m%d ", &id); !isStr || n != 1 {
					r.viol("unknown-document", "%s: line #%d is not the message of any event: %q", where, i, ln)
					continue
				}
				e, known := r.byID[id]
				if !known || len(e.Fields) == 0 {
					r.viol("unknown-document", "%s: line #%d names event %d, which has no message", where, i, id)
					continue
				}
				if e.Parent {
					r.viol("split-parent-in-payload", "%s: the parent event of a split (id %d) appears in the payload", where, id)
				}
				if want, _ := norm([]byte(rawJSONString(e.Fields[0]))); want != doc {
					r.viol("document-altered", "%s: line #%d is %q, the message of event %d is %q", where, i, str, id, want)
				}
				r.deliv[id] = append(r.deliv[id], delivery{id: id, request: req, ok: ok, pos: i})
				ids = append(ids, id)
			}
			break
		}
		for i, ln := range lines {
			doc, err := norm(ln)
			if err != nil {
				r.viol("document-not-json", "%s: line #%d is not valid JSON (%v): %q", where, i, err, ln)
				continue
			}
			ids = append(ids, r.checkDoc(doc, req, i, ok, where))
		}
	case "loki":
		if status == 200 {
			status = 204
			ok = true
		}
		doc, err := norm(c.Body)
		if err != nil {
			r.viol("push-not-json", "%s: the push request is not valid JSON (%v): %q", where, err, trunc(c.Body))
			break
		}
		top, _ := doc.(map[string]any)
		streams, _ := top["streams"].([]any)
		if len(top) != 1 || len(streams) != 1 {
			r.viol("push-shape", "%s: expected {\"streams\":[one stream]}: %q", where, trunc(c.Body))
			break
		}
		st, _ := streams[0].(map[string]any)
		if !reflect.DeepEqual(st["stream"], map[string]any{"app": "fd"}) {
			r.viol("push-labels", "%s: stream labels are %v, configured {app: fd}", where, st["stream"])
		}
		vals, _ := st["values"].([]any)
		for i, v := range vals {
			ent, _ := v.([]any)
			if len(ent) != 3 {
				r.viol("push-entry-shape", "%s: values[%d] is not [ts, line, metadata]: %v", where, i, v)
				continue
			}
			ts, tsOK := ent[0].(string)
			line, lineOK := ent[1].(string)
			md, mdOK := ent[2].(map[string]any)
			if !tsOK || !lineOK || !mdOK {
				r.viol("push-entry-shape", "%s: values[%d] is not [string, string, object]: %v", where, i, v)
				continue
			}
			// put the event together again: metadata + line (+ its own time stamp)
			idf, has := md["id"].(float64)
			if !has {
				r.viol("document-without-id", "%s: values[%d] has no id in its metadata: %v", where, i, v)
				ids = append(ids, -1)
				continue
			}
			e, known := r.byID[int(idf)]
			whole := map[string]any{}
			for k, x := range md {
				whole[k] = x
			}
			if known && len(e.Fields) > 0 {
				whole["f0"] = line
			} else if line != "" {
				r.viol("document-altered", "%s: values[%d] (id %d) carries the line %q, the event has no message field", where, i, int(idf), line)
			}
			if known && e.TS {
				whole["ts"] = ts
			} else if n, err := strconv.ParseInt(ts, 10, 64); err != nil || n <= 0 {
				r.viol("push-entry-shape", "%s: values[%d] has time stamp %q, not unix nanoseconds", where, i, ts)
			}
			ids = append(ids, r.checkDoc(whole, req, i, ok, where))
		}
	case "splunk":
		dec := json.NewDecoder(bytes.NewReader(c.Body))
		for i := 0; ; i++ {
			var env map[string]any
			if err := dec.Decode(&env); err == io.EOF {
				break
			} else if err != nil {
				r.viol("envelope-not-json", "%s: envelope #%d is not valid JSON (%v): %q", where, i, err, trunc(c.Body))
				break
			}
			ev, has := env["event"]
			if !has {
				r.viol("envelope-without-event", "%s: envelope #%d has no event field: %v", where, i, env)
				continue
			}
			ids = append(ids, r.checkDoc(ev, req, i, ok, where))
			// the envelope carries this event's copied fields and nothing else
			var wantFields any
			if em, isMap := ev.(map[string]any); isMap && cfg.Copy {
				if v, hasSvc := em["svc"]; hasSvc {
					wantFields = map[string]any{"svc": v}
				}
			}
			envKeys := make([]string, 0, len(env))
			for k := range env {
				envKeys = append(envKeys, k)
			}
			sort.Strings(envKeys)
			for _, k := range envKeys {
				if k != "event" && !(k == "fields" && wantFields != nil) {
					r.viol("envelope-field-of-another-event", "%s: envelope #%d carries %q although its event has nothing to copy there: %v", where, i, k, env)
				}
			}
			if wantFields != nil && !reflect.DeepEqual(env["fields"], wantFields) {
				r.viol("envelope-copied-field-wrong", "%s: envelope #%d: fields=%v, expected %v", where, i, env["fields"], wantFields)
			}
		}
	}
	// batch order inside one payload
	for i := 1; i < len(ids); i++ {
		if ids[i] >= 0 && ids[i-1] >= 0 && ids[i] <= ids[i-1] {
			r.viol("payload-out-of-batch-order", "%s: documents are not in batch order: ids %v", where, ids)
			break
		}
	}
	if status == 413 && len(ids) == 1 && ids[0] >= 0 {
		r.tooLarge[ids[0]] = true
	}
	body := []byte(`{"took":1,"errors":false,"items":[]}`)
	if cfg.Sink == "splunk" {
		body = []byte(`{"code":0,"text":"Success"}`)
	}
	if cfg.Sink == "loki" && status == 204 {
		body = nil
	}
	if status != 200 {
		body = []byte(`{"error":"simulated"}`)
	}
	return simfasthttp.Reply{Status: status, Body: body, Latency: time.Duration(simrt.Active().WorldRand().IntN(20)) * time.Millisecond}
}

// gelfChunk checks what one Write of the GELF output delivered to the server: null-terminated GELF messages.
func (r *run) gelfChunk(conn int, chunk []byte, cut bool) {
	r.requests++
	req := r.requests
	frames := bytes.Split(chunk, []byte{0})
	last := frames[len(frames)-1]
	frames = frames[:len(frames)-1]
	if len(last) > 0 && !cut {
		r.viol("frame-not-terminated", "gelf connection #%d write #%d: the data does not end with a null byte: %q", conn, req, trunc(chunk))
	}
	var ids []int
	for i, f := range frames {
		where := fmt.Sprintf("gelf connection #%d write #%d message #%d", conn, req, i)
		doc, err := norm(f)
		if err != nil {
			r.viol("document-not-json", "%s is not valid JSON (%v): %q", where, err, trunc(f))
			continue
		}
		m, isObj := doc.(map[string]any)
		if !isObj {
			r.viol("document-not-an-object", "%s is not a JSON object: %q", where, trunc(f))
			continue
		}
		idf, has := m["_id"].(float64)
		if !has {
			r.viol("document-without-id", "%s has no _id: %q", where, trunc(f))
			ids = append(ids, -1)
			continue
		}
		id := int(idf)
		e, known := r.byID[id]
		if !known {
			r.viol("unknown-document", "%s has unknown id %d", where, id)
			continue
		}
		if e.Parent {
			r.viol("split-parent-in-payload", "%s: the parent event of a split (id %d) appears in the payload", where, id)
		}
		ts, hasTS := m["timestamp"]
		delete(m, "timestamp")
		tsf, isNum := ts.(float64)
		switch e.Time {
		case "":
			if hasTS {
				r.viol("document-altered", "%s (id %d) carries a timestamp %v although the event has no time field", where, id, ts)
			}
		case "rfc", "num":
			want := float64(gelfTime(e).UnixNano()) / 1e9
			if !isNum || tsf < want-0.002 || tsf > want+0.002 {
				r.viol("document-altered", "%s (id %d): timestamp is %v, the event's time is %.3f", where, id, ts, want)
			}
		default:
			if !isNum || tsf < 1e9 {
				r.viol("document-altered", "%s (id %d): timestamp is %v, expected the current time as a number", where, id, ts)
			}
		}
		if want := gelfWant(e); !reflect.DeepEqual(want, m) {
			r.viol("document-altered", "%s: GELF message of id %d is %v (without its timestamp), expected %v", where, id, m, want)
		}
		r.deliv[id] = append(r.deliv[id], delivery{id: id, request: req, ok: true, pos: i})
		ids = append(ids, id)
	}
	for i := 1; i < len(ids); i++ {
		if ids[i] >= 0 && ids[i-1] >= 0 && ids[i] <= ids[i-1] {
			r.viol("payload-out-of-batch-order", "gelf connection #%d write #%d: messages are not in batch order: ids %v", conn, req, ids)
			break
		}
	}
}

// fileContent checks one file written by the file output: complete lines, one event each.
func (r *run) fileContent(name string, b []byte) {
	r.requests++
	req := r.requests
	if len(b) > 0 && b[len(b)-1] != '\n' {
		r.viol("file-ends-in-mid-line", "file %s does not end with a newline: %q", name, trunc(b))
	}
	lines := bytes.Split(b, []byte("\n"))
	if len(lines) > 0 && len(lines[len(lines)-1]) == 0 {
		lines = lines[:len(lines)-1]
	}
	for i, ln := range lines {
		where := fmt.Sprintf("file %s line #%d", name, i)
		doc, err := norm(ln)
		if err != nil {
			r.viol("document-not-json", "%s is not valid JSON (%v): %q", where, err, trunc(ln))
			continue
		}
		r.checkDoc(doc, req, i, true, where)
	}
}

func trunc(b []byte) string {
	if len(b) > 300 {
		return string(b[:300]) + "..."
	}
	return string(b)
}

func (h *H) Run(cc core.Cfg, sim *simrt.Sim) *core.Outcome {
	cfg := cc.(*Cfg)
	o := &core.Outcome{NonTrivial: map[string]bool{}, Probes: map[string]int{}}
	r := &run{cfg: cfg, o: o, byID: map[int]Ev{}, want: map[int]any{}, deliv: map[int][]delivery{}, commits: map[int]int{}, events: map[*pipeline.Event]int{}, tooLarge: map[int]bool{}, inDLQ: map[int]bool{}, mainCommits: map[int]int{}}
	for _, e := range cfg.Events {
		r.byID[e.ID] = e
		w, err := norm([]byte(evJSON(e)))
		if err != nil {
			panic(fmt.Sprintf("harness generated invalid JSON: %v: %s", err, evJSON(e)))
		}
		r.want[e.ID] = w
	}
	verdict := false
	var broker *simkgo.Broker
	var netSrv *simnet.Server
	reason := sim.Run(func() {
		seq++
		name := fmt.Sprintf("h9_%d", seq)
		simfasthttp.Install(r.endpoint)
		fsys := simos.NewFS()
		netSrv = &simnet.Server{OnData: func(id int, b []byte, cut bool) { r.gelfChunk(id, b, cut) }}
		simnet.Install(netSrv)
		broker = simkgo.NewBroker()
		broker.OnProduce = func(rs []*simkgo.Record) error {
			r.requests++
			if simrt.Decide("sink.status5xx") {
				r.had5xx = true
				return io.ErrUnexpectedEOF
			}
			var ids []int
			for i, rec := range rs {
				doc, err := norm(rec.Value)
				where := fmt.Sprintf("kafka produce #%d record #%d topic %q", r.requests, i, rec.Topic)
				if err != nil {
					r.viol("document-not-json", "%s: value is not valid JSON (%v): %q", where, err, rec.Value)
					continue
				}
				id := r.checkDoc(doc, r.requests, i, true, where)
				ids = append(ids, id)
				if id >= 0 {
					wantTopic := "logs"
					if e := r.byID[id]; e.HasSvc && e.Svc != "" {
						wantTopic = e.Svc
					}
					if rec.Topic != wantTopic {
						r.viol("wrong-topic", "%s: expected topic %q", where, wantTopic)
					}
				}
			}
			for i := 1; i < len(ids); i++ {
				if ids[i] >= 0 && ids[i-1] >= 0 && ids[i] <= ids[i-1] {
					r.viol("payload-out-of-batch-order", "kafka produce #%d: records are not in batch order: ids %v", r.requests, ids)
					break
				}
			}
			return nil
		}
		typ := map[string]string{"es": "elasticsearch", "http": "http", "splunk": "splunk", "kafka": "kafka", "loki": "loki", "gelf": "gelf", "file": "file"}[cfg.Sink]
		static, err := fd.DefaultPluginRegistry.Get(pipeline.PluginKindOutput, typ)
		if err != nil {
			panic(err)
		}
		common := fmt.Sprintf(`"workers_count":"%d","batch_size":"%d","batch_flush_timeout":%q,"retry":%d,"retention":"5ms"`, cfg.Workers, cfg.BatchSize, cfg.Flush.String(), cfg.Retry)
		gz := ""
		if cfg.Gzip {
			gz = `,"use_gzip":true`
		}
		var js string
		switch cfg.Sink {
		case "es":
			js = fmt.Sprintf(`{"endpoints":["http://es:9200"],"index_format":"logs-%%","index_values":["svc"],"split_batch":%v,"connection_timeout":"1s",%s%s}`, cfg.Split, common, gz)
		case "http":
			enc := ""
			if cfg.Raw {
				enc = `,"encoding":{"type":"raw","params":{"field":"f0"}}`
			}
			js = fmt.Sprintf(`{"endpoints":["http://sink:8080/in"],"split_batch":%v,"connection_timeout":"1s",%s%s%s}`, cfg.Split, common, gz, enc)
		case "splunk":
			cp := ""
			if cfg.Copy {
				cp = `,"copy_fields":[{"from":"svc","to":"fields.svc"}]`
			}
			js = fmt.Sprintf(`{"endpoint":"http://splunk:8088/services/collector","token":"t","request_timeout":"1s",%s%s%s}`, common, gz, cp)
		case "loki":
			js = fmt.Sprintf(`{"address":"http://loki:3100","labels":[{"label":"app","value":"fd"}],"message_field":"f0","timestamp_field":"ts","connection_timeout":"1s",%s}`, common)
		case "gelf":
			js = fmt.Sprintf(`{"endpoint":"graylog:12201","reconnect_interval":%q,"connection_timeout":"1s","write_timeout":"1s","host_field":"host","short_message_field":"f0","default_short_message_value":"none","full_message_field":"f1","timestamp_field":"time","level_field":"level",%s}`, cfg.Reconnect.String(), common)
		case "file":
			js = fmt.Sprintf(`{"target_file":"/out/logs/app.log","retention_interval":%q,"workers_count":"%d","batch_size":"%d","batch_flush_timeout":%q}`, cfg.Retention.String(), cfg.Workers, cfg.BatchSize, cfg.Flush.String())
		case "kafka":
			js = fmt.Sprintf(`{"brokers":["sim:9092"],"default_topic":"logs","use_topic_field":true,"topic_field":"svc",%s}`, common)
		}
		conf, err := pipeline.GetConfig(static, []byte(js), map[string]int{"gomaxprocs": 1, "capacity": 64})
		if err != nil {
			panic(fmt.Sprintf("%s config: %v (%s)", typ, err, js))
		}
		pl, _ := static.Factory()
		plugin := pl.(pipeline.OutputPlugin)
		router := pipeline.NewRouter()
		if cfg.DLQ {
			router.SetDeadQueueOutput(&pipeline.OutputPluginInfo{PluginStaticInfo: &pipeline.PluginStaticInfo{Type: "simdlq"}, PluginRuntimeInfo: &pipeline.PluginRuntimeInfo{Plugin: &dlq{r: r}}})
		}
		plugin.Start(conf, &pipeline.OutputPluginParams{
			PluginDefaultParams: pipeline.PluginDefaultParams{PipelineName: name, PipelineSettings: &pipeline.Settings{AvgEventSize: 64, Capacity: 64}, MetricCtl: metric.NewCtl(name, prometheus.NewRegistry(), 0, 0)},
			Controller:          &ctl{r: r}, Router: router, Logger: h1pipe.QuietLogger().Sugar(),
		})
		for _, e := range cfg.Events {
			if e.Pause > 0 {
				simrt.Sleep(e.Pause)
			}
			js := evJSON(e)
			ev := &pipeline.Event{Root: insaneJSON.Spawn(), Size: len(js)}
			if err := ev.Root.DecodeString(js); err != nil {
				panic(fmt.Sprintf("insane-json refused harness JSON: %v: %s", err, js))
			}
			if e.Parent {
				ev.SetChildParentKind()
			}
			r.events[ev] = e.ID
			plugin.Out(ev)
		}
		// all commits must arrive in the quiet tail
		deadline := simrt.SimNow() + cfg.Sim.QuietAt + 60*time.Second
		for simrt.SimNow() < deadline && len(r.commits) < len(cfg.Events) {
			simrt.Sleep(100 * time.Millisecond)
		}
		if cfg.Sink == "file" {
			// what the plugin left on the disk: the current file and the sealed ones
			simrt.Sleep(5 * time.Millisecond)
			ents, err := simos.ReadDir("/out/logs")
			if err != nil {
				r.viol("target-dir-missing", "cannot list /out/logs: %v", err)
			}
			for _, ent := range ents {
				b, _ := fsys.ReadDirect("/out/logs/" + ent.Name())
				r.fileContent(ent.Name(), b)
			}
		} else {
			simrt.Sleep(time.Second)
		}
		verdict = true
		simrt.Stop("done")
	})
	o.EndReason = reason
	if reason == "died" {
		o.Violate("C19", "died", "output died: %s", sim.Died())
		return o
	}
	if !verdict {
		o.Inconclusive = "ended by " + reason
		return o
	}
	if netSrv != nil && netSrv.Faults > 0 {
		r.had5xx = true
	}
	// coverage: every deliverable event exactly once among the 2xx-answered payloads
	retried := r.had5xx
	for _, e := range cfg.Events {
		if r.inDLQ[e.ID] && r.mainCommits[e.ID] > 0 {
			// C09: "handed to the dead-queue output ... and then committed by the dead queue alone"
			r.o.Violate("C09", "committed-by-main-output-and-dead-queue", "%s output: event id %d was handed to the dead queue and also committed by the main output (%d times)", cfg.Sink, e.ID, r.mainCommits[e.ID])
		}
		if r.commits[e.ID] > 1 {
			// a commit is what finalises an event: the pipeline returns it to the pool at each one
			r.o.Violate("C05", "event-finalized-twice", "%s output: event id %d was committed %d times (main output %d times, dead queue: %v): the pipeline finalises, and returns to the pool, at every commit", cfg.Sink, e.ID, r.commits[e.ID], r.mainCommits[e.ID], r.inDLQ[e.ID])
			r.viol("event-committed-twice", "event id %d was committed %d times (main output %d times, dead queue: %v)", e.ID, r.commits[e.ID], r.mainCommits[e.ID], r.inDLQ[e.ID])
		}
		okCount := 0
		for _, d := range r.deliv[e.ID] {
			if d.ok {
				okCount++
			}
		}
		switch {
		case e.Parent:
			if len(r.deliv[e.ID]) > 0 {
				// reported at the request
			}
		case r.commits[e.ID] == 0:
			r.viol("event-never-committed", "event id %d was never committed by the output (requests %d)", e.ID, r.requests)
		case okCount == 0:
			if cfg.Raw && len(e.Fields) == 0 {
				continue // raw encoding: an event without the message field has nothing to send
			}
			if r.tooLarge[e.ID] {
				continue // cannot be delivered on its own: the documented drop
			}
			if cfg.DLQ && r.inDLQ[e.ID] {
				continue // given up after the configured attempts and handed to the dead queue
			}
			if !cfg.DLQ && r.had5xx {
				continue // retries may have been exhausted: the documented give-up (not observable without a dead queue; C09's business)
			}
			sig := "event-missing"
			if cfg.Limit413 > 0 && r.had413 > 0 {
				sig += "/after-413"
				if !cfg.Split {
					continue // without split_batch a 413 drops the whole batch by design (non-retryable)
				}
				if len(r.tooLarge) > 0 {
					sig += "/another-event-was-too-large-on-its-own"
				}
			}
			r.viol(sig, "event id %d was committed but no successfully answered payload carried it (limit_413=%d split=%v, %d requests, %d answered 413)", e.ID, cfg.Limit413, cfg.Split, r.requests, r.had413)
			if cfg.DLQ {
				r.o.Violate("C09", "committed-without-delivery-or-dead-queue", "%s output: event id %d was committed by the main output although no successfully answered payload carried it and it was not handed to the dead queue: a failed send was neither retried to success nor given up (limit_413=%d split=%v retry=%d, %d requests)", cfg.Sink, e.ID, cfg.Limit413, cfg.Split, cfg.Retry, r.requests)
			}
		case okCount > 1 && !retried:
			r.viol("event-delivered-twice", "event id %d is carried by %d successfully answered payloads although nothing was retried", e.ID, okCount)
		}
	}
	o.NonTrivial["C19"] = r.requests > 0 && len(cfg.Events) > 1
	o.NonTrivial["C09"] = r.had5xx && cfg.DLQ
	o.NonTrivial["C05"] = r.had5xx && cfg.DLQ
	if len(r.inDLQ) > 0 {
		o.Probes["events-in-dead-queue"] += len(r.inDLQ)
	}
	o.Probes["413-answers"] += r.had413
	o.Probes["sink."+cfg.Sink]++
	if cfg.Sink == "file" && r.requests > 1 {
		o.Probes["file.sealed-files"] += r.requests - 1
	}
	if netSrv != nil {
		o.Probes["net.faults"] += netSrv.Faults
	}
	o.Summary = map[string]any{"sink": cfg.Sink, "events": len(cfg.Events), "requests": r.requests, "split": cfg.Split, "limit_413": cfg.Limit413}
	_ = broker
	return o
}
