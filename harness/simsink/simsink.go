// Package simsink is an output plugin built exactly like file.d's real batched
// outputs (pipeline.NewRetriableBatcher, onError -> Router.Fail for every
// event), with a send function that waits a seeded latency on simulated time
// and fails according to a plan supplied by the harness.
package simsink

import (
	"context"
	"errors"
	"time"

	"github.com/ozontech/file.d/metric"
	"github.com/ozontech/file.d/pipeline"
	"verif/simrt"
)

type Config struct {
	Name       string        `json:"name"`
	Workers    int           `json:"workers"`
	Count      int           `json:"count"`
	Bytes      int           `json:"bytes"`
	Flush      time.Duration `json:"flush"`
	Retry      int           `json:"retry"`
	Retention  time.Duration `json:"retention"`
	Multiplier float64       `json:"multiplier"`
	MaxLatency time.Duration `json:"max_latency"`
	FailFirst  int           `json:"fail_first"`        // the first n batches fail every attempt (scripted burst)
	NoFail     bool          `json:"no_fail,omitempty"` // this sink never fails (dead queue)
}

// Observer receives everything the sink sees.
type Observer interface {
	OnOut(sink string, e *pipeline.Event)
	OnSendStart(sink string, batchNo, attempt int, iter, all []*pipeline.Event)
	OnSendRet(sink string, batchNo, attempt int, failed bool)
	OnGiveUp(sink string, batchNo int, events []*pipeline.Event)
}

type Plugin struct {
	Cfg     Config
	Obs     Observer
	Ctx     context.Context
	Metric  *metric.Ctl
	batcher *pipeline.RetriableBatcher
	router  *pipeline.Router
	nBatch  int
	cur     map[*pipeline.Batch]*inflight
}

type inflight struct {
	no      int
	attempt int
}

var ErrSend = errors.New("simulated send failure")

func (p *Plugin) Start(_ pipeline.AnyConfig, params *pipeline.OutputPluginParams) {
	p.router = params.Router
	p.cur = map[*pipeline.Batch]*inflight{}
	mc := p.Metric
	if mc == nil {
		mc = params.MetricCtl
	}
	opts := pipeline.BatcherOptions{
		PipelineName: params.PipelineName, OutputType: "sim_" + p.Cfg.Name, Controller: params.Controller, Workers: p.Cfg.Workers,
		BatchSizeCount: p.Cfg.Count, BatchSizeBytes: p.Cfg.Bytes, FlushTimeout: p.Cfg.Flush, MetricCtl: mc,
	}
	bo := pipeline.BackoffOpts{MinRetention: p.Cfg.Retention, Multiplier: p.Cfg.Multiplier, AttemptNum: p.Cfg.Retry,
		IsDeadQueueAvailable: p.router != nil && p.router.IsDeadQueueAvailable()}
	p.batcher = pipeline.NewRetriableBatcher(&opts, p.out, bo, func(err error, events []*pipeline.Event) {
		no := -1
		for b, f := range p.cur {
			evs := pipeline.VerifBatchEvents(b)
			if len(evs) > 0 && len(events) > 0 && evs[0] == events[0] {
				no = f.no
				delete(p.cur, b)
				break
			}
		}
		p.Obs.OnGiveUp(p.Cfg.Name, no, events)
		for i := range events {
			p.router.Fail(events[i])
		}
	})
	ctx := p.Ctx
	if ctx == nil {
		ctx = context.Background()
	}
	p.batcher.Start(ctx)
}

func (p *Plugin) Stop() { p.batcher.Stop() }

func (p *Plugin) Out(e *pipeline.Event) {
	p.Obs.OnOut(p.Cfg.Name, e)
	p.batcher.Add(e)
}

func (p *Plugin) out(_ *pipeline.WorkerData, batch *pipeline.Batch) error {
	f := p.cur[batch]
	if f == nil {
		f = &inflight{no: p.nBatch}
		p.nBatch++
		p.cur[batch] = f
	}
	var iter []*pipeline.Event
	batch.ForEach(func(e *pipeline.Event) { iter = append(iter, e) })
	all := append([]*pipeline.Event(nil), pipeline.VerifBatchEvents(batch)...)
	att := f.attempt
	f.attempt++
	p.Obs.OnSendStart(p.Cfg.Name, f.no, att, iter, all)
	lat := time.Duration(0)
	if p.Cfg.MaxLatency > 0 {
		w := simrt.Active().WorldRand()
		if w.IntN(4) != 0 {
			lat = time.Duration(w.Int64N(int64(p.Cfg.MaxLatency)))
		}
	}
	if simrt.Decide("sink.slow") {
		lat += 2 * time.Second
	}
	if lat > 0 {
		simrt.Sleep(lat)
	} else {
		simrt.Point()
	}
	fail := !p.Cfg.NoFail && (f.no < p.Cfg.FailFirst || simrt.Decide("sink.fail"))
	p.Obs.OnSendRet(p.Cfg.Name, f.no, att, fail)
	if fail {
		return ErrSend
	}
	delete(p.cur, batch)
	return nil
}
