// Package h1pipe is harness family H1 "pipecore": a real pipeline.Pipeline
// (streamer, processors, pools, batcher, backoff, router) between a simulated
// input plugin (R readers over S sources x T stream values) and simsink.
// It decides C01, C02, C04 and C05.
package h1pipe

import (
	"context"
	"fmt"
	"github.com/ozontech/file.d/pipeline/doif"
	"math/rand/v2"
	"os"
	"sort"
	"strconv"
	"strings"
	"time"

	"github.com/ozontech/file.d/cfg"
	"github.com/ozontech/file.d/fd"
	"github.com/ozontech/file.d/logger"
	"github.com/ozontech/file.d/pipeline"
	_ "github.com/ozontech/file.d/plugin/action/discard"
	_ "github.com/ozontech/file.d/plugin/action/join"
	_ "github.com/ozontech/file.d/plugin/action/split"
	"github.com/ozontech/file.d/zz_verifharness/core"
	"github.com/ozontech/file.d/zz_verifharness/simsink"
	"github.com/prometheus/client_golang/prometheus"
	"go.uber.org/zap"
	"go.uber.org/zap/zapcore"
	"verif/simrt"
)

func init() {
	core.Register(&H{})
	logger.Instance = QuietLogger().Sugar()
}

// QuietLogger discards everything; Fatal panics instead of exiting so that the
// simulation records "process died".
func QuietLogger() *zap.Logger {
	if os.Getenv("VERIF_DEBUG") != "" {
		enc := zapcore.NewConsoleEncoder(zap.NewDevelopmentEncoderConfig())
		return zap.New(zapcore.NewCore(enc, zapcore.AddSync(os.Stdout), zapcore.WarnLevel), zap.WithFatalHook(zapcore.WriteThenPanic))
	}
	return zap.New(zapcore.NewNopCore(), zap.WithFatalHook(zapcore.WriteThenPanic))
}

type Line struct {
	ID     int      `json:"id"`
	Source int      `json:"src"`
	Stream string   `json:"stream"`
	Dirs   []string `json:"dirs,omitempty"`    // directive for action i ("", pass, discard, break)
	Msg    string   `json:"msg,omitempty"`     // join field: "S.." start, "C.." continuation, other = plain
	Kids   int      `json:"kids,omitempty"`    // >0: array field for the split action
	Drop   bool     `json:"drop,omitempty"`    // matched by the real discard action
	NoSel  bool     `json:"nosel,omitempty"`   // the event does not satisfy the join action's selector (match_fields / do_if)
	Reject bool     `json:"reject,omitempty"`  // the input's PassEvent refuses it (as the file input does for offsets already committed)
	MsgNum bool     `json:"msg_num,omitempty"` // the join field is present but a number
	// Tick: sent when the clock reaches the first 200 ms mark (the streamer's heart-beat period, counted from the
	// pipeline's start) more than one event time-out ahead, plus TickOff: the put races with the time-out delivery
	Tick    bool          `json:"tick,omitempty"`
	TickOff time.Duration `json:"tick_off,omitempty"`
	Bad     int           `json:"bad,omitempty"` // 1 undecodable, 2 empty line, 3 longer than max_event_size (refused, or cut to something undecodable)
	Pause   time.Duration `json:"pause,omitempty"`
}

type ActionCfg struct {
	Kind string `json:"kind"`          // dir | join | split | discard
	Sel  string `json:"sel,omitempty"` // join only: "" every event, "match" match_fields on sel=1, "doif" do_if on sel=1
}

type Cfg struct {
	Sim          simrt.Config    `json:"sim"`
	Pool         string          `json:"pool"`
	Capacity     int             `json:"capacity"`
	SingleProc   bool            `json:"single_proc"`
	EventTimeout time.Duration   `json:"event_timeout"`
	Readers      [][]Line        `json:"readers"` // per reader goroutine: its lines in read order
	Actions      []ActionCfg     `json:"actions"`
	Sink         simsink.Config  `json:"sink"`
	DLQ          *simsink.Config `json:"dlq,omitempty"`
	QuietBound   time.Duration   `json:"quiet_bound"`
	StopAt       time.Duration   `json:"stop_at,omitempty"` // >0: Pipeline.Stop is called at this simulated instant
	// Trickle > 0: the "many streams in mid multi-line" profile. The first Trickle sources keep a join run open with a
	// continuation line every third of the event time-out (their processors stay blocked on them, legitimately); the
	// remaining sources send one plain line each, which must be attended to although every processor is busy
	Trickle int `json:"trickle,omitempty"`
	// MaxSize > 0: max_event_size (far above every ordinary line of the harness) with cut_off_event_by_limit = CutOff;
	// lines with Bad == 3 are longer: refused outright, or cut to their first MaxSize bytes, which do not decode
	MaxSize int  `json:"max_event_size,omitempty"`
	CutOff  bool `json:"cut_off,omitempty"`
}

func (c *Cfg) SimCfg() *simrt.Config { return &c.Sim }

type H struct{}

func (h *H) Name() string     { return "h1pipe" }
func (h *H) Props() []string  { return []string{"C01", "C02", "C04", "C05"} }
func (h *H) NewCfg() core.Cfg { return &Cfg{} }

// Weight: C05 is shared with the outputs harness, which takes one slot in five.
func (h *H) Weight(prop string) int {
	if prop == "C05" {
		return 2
	}
	return 1
}

func (h *H) Gen(rng *rand.Rand, tier, prop string) core.Cfg {
	c := &Cfg{}
	c.Sim = simrt.Config{
		PSwitch:  core.Pick(rng, 0.005, 0.02, 0.05, 0.1, 0.2, 0.4),
		StepCost: time.Duration(core.Between(rng, 0, 3)) * time.Microsecond,
		MaxSteps: 1_500_000,
		Horizon:  2 * time.Hour,
		Boost:    map[string]float64{},
		Faults:   map[string]float64{},
		Procs:    core.Pick(rng, 1, 1, 2, 4),
	}
	if core.Chance(rng, 0.4) {
		c.Sim.Boost["cond"] = 4
	}
	if core.Chance(rng, 0.3) {
		c.Sim.Boost["atomic"] = 3
	}
	if core.Chance(rng, 0.1) {
		c.Sim.PCT = core.Between(rng, 1, 4)
		c.Sim.PCTLen = 20000
	}
	c.Pool = core.Pick(rng, "std", "low_memory")
	c.Capacity = core.Pick(rng, 1, 1, 2, 2, 3, 4, 8, 16, 64)
	if prop == "C04" || prop == "C05" {
		c.Capacity = core.Pick(rng, 1, 1, 2, 2, 3, 4, 8)
		c.Sim.Boost["cond"] = 5
		c.Sim.PCT = 0
	}
	if core.Chance(rng, 0.5) {
		c.MaxSize, c.CutOff = 600, core.Chance(rng, 0.6)
	}
	c.SingleProc = core.Chance(rng, 0.3)
	c.EventTimeout = core.DurBetween(rng, 50*time.Millisecond, 5*time.Second)
	// actions
	nAct := core.Between(rng, 0, 4)
	for i := 0; i < nAct; i++ {
		k := core.Pick(rng, "dir", "dir", "join", "split", "discard")
		if k == "join" {
			njoin := 0
			for _, a := range c.Actions {
				if a.Kind == "join" {
					njoin++
				}
			}
			if njoin > 0 && !core.Chance(rng, 0.1) {
				k = "dir" // two multi-line actions in one chain only rarely (known defect, see DESIGN.md)
			}
		}
		ac := ActionCfg{Kind: k}
		if k == "join" && core.Chance(rng, 0.35) {
			ac.Sel = core.Pick(rng, "match", "doif")
		}
		c.Actions = append(c.Actions, ac)
	}
	hasJoin, hasSplit, hasDiscard, hasSel := false, false, false, false
	for _, a := range c.Actions {
		switch a.Kind {
		case "join":
			hasJoin = true
			hasSel = hasSel || a.Sel != ""
		case "split":
			hasSplit = true
		case "discard":
			hasDiscard = true
		}
	}
	// workload
	nReaders := core.Between(rng, 1, 4)
	nSources := core.Between(rng, nReaders, nReaders+2)
	streams := []string{"a", "b", "c"}[:core.Between(rng, 1, 3)]
	maxLines := 40
	if tier == "thorough" {
		maxLines = 200
	}
	total := core.Between(rng, 3, maxLines)
	c.Readers = make([][]Line, nReaders)
	id := 0
	for i := 0; i < total; i++ {
		src := rng.IntN(nSources)
		rd := src % nReaders
		id++
		l := Line{ID: id, Source: src + 1, Stream: streams[rng.IntN(len(streams))]}
		for range c.Actions {
			d := ""
			switch {
			case core.Chance(rng, 0.12):
				d = "discard"
			case core.Chance(rng, 0.05):
				d = "break"
			}
			l.Dirs = append(l.Dirs, d)
		}
		if hasSel && core.Chance(rng, 0.3) {
			l.NoSel = true
		}
		if hasJoin {
			switch {
			case core.Chance(rng, 0.2):
				l.Msg = "S" + strconv.Itoa(id)
			case core.Chance(rng, 0.35):
				l.Msg = "C" + strconv.Itoa(id)
			case core.Chance(rng, 0.5):
				l.Msg = "P" + strconv.Itoa(id)
			case core.Chance(rng, 0.25):
				l.MsgNum = true
			}
		}
		if hasSplit && core.Chance(rng, 0.15) {
			l.Kids = core.Between(rng, 1, 3)
		}
		if hasDiscard && core.Chance(rng, 0.1) {
			l.Drop = true
		}
		if core.Chance(rng, 0.03) {
			l.Bad = core.Between(rng, 1, 2)
			if c.MaxSize > 0 && core.Chance(rng, 0.5) {
				l.Bad = 3
			}
		} else if core.Chance(rng, 0.06) {
			l.Reject = true
		}
		switch {
		case core.Chance(rng, 0.7):
		case hasJoin && core.Chance(rng, 0.25):
			l.Tick = true
			l.TickOff = time.Duration(rng.Int64N(int64(600*time.Microsecond))) - 300*time.Microsecond
		case core.Chance(rng, 0.8):
			l.Pause = core.DurBetween(rng, time.Millisecond, 200*time.Millisecond)
		default:
			l.Pause = core.DurBetween(rng, c.EventTimeout/2, 3*c.EventTimeout)
		}
		c.Readers[rd] = append(c.Readers[rd], l)
	}
	// sink
	c.Sink = simsink.Config{Name: "main", Workers: core.Between(rng, 1, 4), Count: core.Between(rng, 1, 16), Flush: core.DurBetween(rng, 10*time.Millisecond, 2*time.Second),
		Retry: core.Pick(rng, -1, 0, 0, 1, 2, 5), Retention: core.DurBetween(rng, time.Millisecond, 500*time.Millisecond), Multiplier: 2,
		MaxLatency: core.Pick(rng, 0, time.Millisecond, 50*time.Millisecond, 500*time.Millisecond)}
	if core.Chance(rng, 0.2) {
		c.Sink.Bytes = core.Between(rng, 20, 400)
	}
	if core.Chance(rng, 0.5) {
		c.Sim.Faults["sink.fail"] = core.Pick(rng, 0.05, 0.2, 0.5)
		if c.Sink.Retry >= 0 && core.Chance(rng, 0.3) {
			c.Sink.FailFirst = core.Between(rng, 1, 2) // scripted burst: these batches exhaust their retries
		}
		if core.Chance(rng, 0.5) {
			c.DLQ = &simsink.Config{Name: "dlq", Workers: 1, Count: core.Between(rng, 1, 8), Flush: core.DurBetween(rng, 10*time.Millisecond, 2*time.Second),
				Retry: 0, Retention: time.Millisecond, Multiplier: 2, MaxLatency: core.Pick(rng, 0, 10*time.Millisecond), NoFail: true}
		}
	}
	if prop == "C04" {
		// liveness is judged with an output that keeps acknowledging
		delete(c.Sim.Faults, "sink.fail")
		c.Sink.FailFirst = 0
		c.DLQ = nil
		c.Sink.Workers = core.Pick(rng, 1, 1, 2)
	}
	if core.Chance(rng, 0.15) {
		c.Sim.Faults["time.stall"] = 0.0005
		c.Sim.StallMax = 5 * time.Second
	}
	if (prop == "C01" || prop == "C02") && core.Chance(rng, 0.15) {
		// the pipeline is stopped while the output may still be failing: nothing undelivered may be committed
		c.StopAt = core.DurBetween(rng, 10*time.Millisecond, 3*time.Second)
		if core.Chance(rng, 0.7) {
			c.Sim.Faults["sink.fail"] = core.Pick(rng, 0.3, 0.7)
			c.Sink.Retry = core.Pick(rng, -1, 3, 5)
			c.Sink.Retention = core.DurBetween(rng, 10*time.Millisecond, time.Second)
		}
	}
	c.Sim.QuietAt = 20 * time.Second // faults stop; the verdict is taken in the quiet phase
	c.QuietBound = 120 * time.Second
	if prop == "C04" && core.Chance(rng, 0.06) {
		trickleProfile(rng, c)
	}
	return c
}

// trickleProfile replaces the generated workload (see Cfg.Trickle).
func trickleProfile(rng *rand.Rand, c *Cfg) {
	c.Sim.Procs = core.Pick(rng, 1, 2)
	c.Sim.Faults = map[string]float64{}
	c.Sim.PCT, c.Sim.StallMax = 0, 0
	c.SingleProc, c.StopAt, c.DLQ = false, 0, nil
	c.Pool, c.Capacity = "std", 64
	c.Actions = []ActionCfg{{Kind: "join"}}
	c.EventTimeout = core.Pick(rng, 600*time.Millisecond, 1500*time.Millisecond)
	c.Sink = simsink.Config{Name: "main", Workers: 2, Count: 4, Flush: 20 * time.Millisecond, Retry: -1, Retention: time.Millisecond, Multiplier: 2}
	procs := 2 * c.Sim.Procs // the pipeline starts with GOMAXPROCS*2 processors and doubles them when all are busy
	c.Trickle = 2*procs + core.Between(rng, 0, 2)
	plain := core.Between(rng, 1, 3)
	c.Readers = nil
	id := 0
	gap := c.EventTimeout / 3
	rounds := int(6 * time.Second / gap)
	for s := 1; s <= c.Trickle; s++ {
		var ls []Line
		id++
		ls = append(ls, Line{ID: id, Source: s, Stream: "a", Msg: "S" + strconv.Itoa(id), Pause: time.Duration(s) * time.Millisecond})
		for k := 0; k < rounds; k++ {
			id++
			ls = append(ls, Line{ID: id, Source: s, Stream: "a", Msg: "C" + strconv.Itoa(id), Pause: gap})
		}
		c.Readers = append(c.Readers, ls)
	}
	for s := c.Trickle + 1; s <= c.Trickle+plain; s++ {
		id++
		c.Readers = append(c.Readers, []Line{{ID: id, Source: s, Stream: "a", Msg: "P" + strconv.Itoa(id), Pause: core.DurBetween(rng, 300*time.Millisecond, time.Second)}})
	}
	for i := range c.Readers {
		for j := range c.Readers[i] {
			c.Readers[i][j].Dirs = []string{""}
		}
	}
}

func (h *H) Shrink(cc core.Cfg) []core.Cfg {
	c := cc.(*Cfg)
	var out []core.Cfg
	clone := func() *Cfg {
		d := *c
		d.Readers = make([][]Line, len(c.Readers))
		for i := range c.Readers {
			d.Readers[i] = append([]Line(nil), c.Readers[i]...)
		}
		d.Actions = append([]ActionCfg(nil), c.Actions...)
		if c.DLQ != nil {
			x := *c.DLQ
			d.DLQ = &x
		}
		return &d
	}
	for i := range c.Readers {
		if len(c.Readers[i]) > 0 && len(c.Readers) > 1 {
			d := clone()
			d.Readers[i] = nil
			out = append(out, d)
		}
		if n := len(c.Readers[i]); n > 1 {
			d := clone()
			d.Readers[i] = d.Readers[i][:n/2]
			out = append(out, d)
			d = clone()
			d.Readers[i] = d.Readers[i][n/2:]
			out = append(out, d)
		}
	}
	for i := range c.Readers {
		for j := range c.Readers[i] {
			if len(c.Readers[i]) <= 8 {
				d := clone()
				d.Readers[i] = append(d.Readers[i][:j:j], d.Readers[i][j+1:]...)
				out = append(out, d)
			}
		}
	}
	if len(c.Actions) > 0 {
		// drop the last action (lines keep their directive lists; extra entries are ignored)
		d := clone()
		d.Actions = d.Actions[:len(d.Actions)-1]
		out = append(out, d)
	}
	if c.Sink.Workers > 1 {
		d := clone()
		d.Sink.Workers = 1
		out = append(out, d)
	}
	if !c.SingleProc {
		d := clone()
		d.SingleProc = true
		out = append(out, d)
	}
	for i := range c.Readers {
		for j := range c.Readers[i] {
			if c.Readers[i][j].Pause != 0 {
				d := clone()
				d.Readers[i][j].Pause = 0
				out = append(out, d)
			}
		}
	}
	return out
}

// ---- per-run state ----

type sendRec struct {
	sink      string
	batch     int
	startStep int
	retStep   int
	failed    bool
	done      bool
}

type ev struct {
	line     Line
	key      string // source/stream
	idx      int    // position in its (source, stream) sequence
	bound    bool
	ptr      *pipeline.Event
	passStep int
	inRet    bool
	seq      uint64
	inCallT  time.Duration
	inRetT   time.Duration
	dropped  bool // discard / collapse observed
	dropHow  string
	held     bool
	broke    bool // left the action chain through ActionBreak
	bypassed bool // held by an action while a later event of its stream left the chain through ActionBreak
	outs     int  // Plugin.Out calls of the main sink
	dlqOuts  int
	sends    []*sendRec
	gaveUp   bool
	finished bool
	finStep  int
	commits  []int // steps
	commitT  []time.Duration
	rejected bool
	kidsSent int
	kidsSeen int
	kidsDLQ  int
}

type stream struct {
	key           string
	evs           []*ev
	frontier      int // first index not finished
	lastCommitIdx int
	lastCommitOff int64
}

type run struct {
	cfg                       *Cfg
	o                         *core.Outcome
	p                         *pipeline.Pipeline
	byID                      map[int]*ev
	byPtr                     map[*pipeline.Event]*ev
	streams                   map[string]*stream
	bound                     int
	maxBound                  int
	readersDone               int
	inFlightIn                map[int]*ev // reader -> event whose In call is pending
	commitsTotal              int
	probes                    map[string]int
	pendingKids               map[sinkBatch][]*ev
	kidParent                 map[*pipeline.Event]*ev // child event of a split -> its parent, fixed when the child reaches the main output
	parentDoneKidsInDLQ       bool                    // a split parent was committed while children of it were pending in the dead queue
	idleReported              bool
	capFreeAt                 map[int]time.Duration
	frontierExercised         bool
	sawDLQPendingAtMainCommit bool
	evaluated                 bool
	stopped                   bool
	nestedHold                bool
	depth                     map[int]int
	all                       []*ev
	sendsInFlight             int
	maxMainBatchDone          int
}

// viol records a violation. Runs in which an action held an event that was
// propagated from inside another action's Do ("nested hold": two multi-line
// actions in one chain) are tagged: that is a known defect of the processor
// (the nested call blocks for the next event of the stream in the middle of the
// outer event's processing) and everything downstream of it is unreliable.
var debugOn = os.Getenv("VERIF_DEBUG") != ""

func (r *run) dbg(f string, a ...any) {
	if debugOn {
		fmt.Printf("H1 step=%d t=%v g=%d: %s\n", simrt.Steps(), simrt.Now().Sub(time.Unix(0, 0)), simrt.CurG(), fmt.Sprintf(f, a...))
	}
}

func evStr(e *pipeline.Event) string {
	return fmt.Sprintf("%p(kind=%d root=%p)", e, pipeline.VerifEventKind(e), e.Root)
}

func (r *run) viol(prop, sig, f string, a ...any) {
	if r.nestedHold {
		sig += "/after-nested-hold"
	}
	r.o.Violate(prop, sig, f, a...)
}

// ---- input plugin ----

type input struct{ r *run }

func (in *input) Start(pipeline.AnyConfig, *pipeline.InputPluginParams) {}
func (in *input) Stop()                                                 {}

func (in *input) PassEvent(e *pipeline.Event) bool {
	in.r.dbg("PassEvent %s", evStr(e))
	r := in.r
	idNode := e.Root.Dig("id")
	if idNode == nil {
		r.viol("C05", "event-without-id", "PassEvent saw an event without id: %s", e.Root.EncodeToString())
		return true
	}
	x := r.byID[idNode.AsInt()]
	if x == nil {
		r.viol("C05", "unknown-id", "PassEvent saw unknown id %d", idNode.AsInt())
		return true
	}
	if old := r.byPtr[e]; old != nil && old != x {
		r.viol("C05", "event-object-handed-out-twice", "event object %p given to id %d while id %d (bound at step %d, not finalized) still owns it", e, x.line.ID, old.line.ID, old.passStep)
	}
	if x.line.Reject {
		// refused by the input: the pipeline returns the event to the pool (once) and In reports no sequence number
		x.rejected = true
		r.probes["passevent-rejected"]++
		return false
	}
	if x.bound {
		r.viol("C05", "id-passed-twice", "id %d passed twice", x.line.ID)
	}
	x.bound = true
	x.ptr = e
	x.passStep = simrt.Steps()
	r.byPtr[e] = x
	r.bound++
	if r.bound > r.maxBound {
		r.maxBound = r.bound
	}
	if r.bound > r.cfg.Capacity {
		r.viol("C05", "over-capacity", "%d events are held by the pipeline (read, not finalized), capacity %d", r.bound, r.cfg.Capacity)
	}
	st := r.streams[x.key]
	if st == nil {
		st = &stream{key: x.key, lastCommitIdx: -1, lastCommitOff: -1}
		r.streams[x.key] = st
	}
	x.idx = len(st.evs)
	st.evs = append(st.evs, x)
	return true
}

func (r *run) release(x *ev) {
	if x.ptr != nil && r.byPtr[x.ptr] == x {
		delete(r.byPtr, x.ptr)
		r.bound--
	}
}

func (r *run) finish(x *ev) {
	if !x.finished {
		x.finished = true
		x.finStep = simrt.Steps()
	}
}

func (in *input) Commit(e *pipeline.Event) {
	in.r.dbg("Commit %s", evStr(e))
	r := in.r
	x := r.byPtr[e]
	if x == nil {
		r.viol("C02", "commit-of-unbound-event", "Commit for an event object that no accepted, unfinalized event owns (offset %d source %d): double commit or commit after drop", e.Offset, e.SourceID)
		// which logical event is it? (its JSON is still there when the commit comes from the drop itself)
		if e.Root != nil {
			if idn := e.Root.Dig("id"); idn != nil {
				x = r.byID[idn.AsInt()]
			}
		}
		if x == nil || !x.bound {
			return
		}
	}
	r.commitsTotal++
	step := simrt.Steps()
	x.commits = append(x.commits, step)
	x.commitT = append(x.commitT, simrt.SimNow())
	st := r.streams[x.key]

	// C01 clause 1: an output has acknowledged this very event
	acked := false
	for _, s := range x.sends {
		if s.done && !s.failed {
			acked = true
		}
	}
	if x.gaveUp && r.cfg.DLQ == nil {
		acked = true // documented give-up without dead queue ("skip message"); C09's business
	}
	if x.line.Kids > 0 && pipeline.VerifEventKind(e) == 2 {
		// split parent: hidden from the send function; acked when all its children were
		acked = x.kidsSeen == x.line.Kids && x.kidsSent >= x.kidsSeen
	}
	if !acked {
		sig := "commit-before-send-returned"
		if x.dropped {
			sig = "commit-of-dropped-event"
		} else if r.cfg.DLQ != nil && (x.dlqOuts > 0 || r.kidInDLQ(x)) {
			sig += "/routed-via-deadqueue"
			if pipeline.VerifEventKind(e) == 2 && r.kidInDLQ(x) {
				r.parentDoneKidsInDLQ = true
			}
		}
		r.viol("C01", sig, "commit of id %d (src %d stream %s offset %d) at step %d, but no output send containing it has returned successfully (sends: %s)", x.line.ID, x.line.Source, x.line.Stream, e.Offset, step, r.sendsStr(x))
	}
	// C01 clause 2: everything read earlier from the same source and stream is finished
	for st.frontier < len(st.evs) && st.evs[st.frontier].finished {
		st.frontier++
	}
	if st.frontier < x.idx {
		y := st.evs[st.frontier]
		where := r.where(y)
		if y.bypassed {
			where += "/bypassed-by-break"
		}
		if r.cfg.DLQ != nil && x.dlqOuts > 0 {
			where += "/committed-by-deadqueue"
		}
		r.viol("C01", "commit-past-unfinished/"+where, "commit of id %d (offset %d) at step %d while id %d (offset %d), read earlier from source %d stream %s, is neither acknowledged nor dropped: %s", x.line.ID, e.Offset, step, y.line.ID, y.ptrOffset(), x.line.Source, x.line.Stream, where)
	}
	if x.idx > 0 {
		prev := st.evs[x.idx-1]
		if prev.finished && prev.finStep > x.passStep {
			r.frontierExercised = true
		}
	}
	// C02: read order, strictly increasing offsets, once
	if len(x.commits) > 1 {
		r.viol("C02", "duplicate-commit", "id %d committed %d times", x.line.ID, len(x.commits))
	}
	if x.idx <= st.lastCommitIdx {
		y := st.evs[st.lastCommitIdx]
		tail := ""
		if r.cfg.DLQ != nil && (x.dlqOuts > 0 || y.dlqOuts > 0 || r.kidInDLQ(x) || r.kidInDLQ(y)) {
			tail = "/routed-via-deadqueue"
		} else if x.bypassed {
			tail = "/held-event-bypassed-by-break"
		}
		r.viol("C02", "out-of-order-commit"+tail, "source %d stream %s: id %d (offset %d) committed after id %d (offset %d), which was read later", x.line.Source, x.line.Stream, x.line.ID, e.Offset, y.line.ID, st.lastCommitOff)
	} else {
		if e.Offset <= st.lastCommitOff {
			r.viol("C02", "offset-not-increasing", "source %d stream %s: committed offset %d after %d", x.line.Source, x.line.Stream, e.Offset, st.lastCommitOff)
		}
		st.lastCommitIdx = x.idx
		st.lastCommitOff = e.Offset
	}
	if x.dropped {
		r.viol("C02", "commit-of-dropped-event", "id %d was dropped by an action (%s) and committed as well", x.line.ID, x.dropHow)
	}
	if e.Offset != x.offset() {
		r.viol("C05", "event-content-aliased", "commit of id %d carries offset %d, expected %d", x.line.ID, e.Offset, x.offset())
	}
	r.finish(x)
	r.release(x)
}

func (r *run) kidInDLQ(x *ev) bool { return x.kidsDLQ > 0 }

func (x *ev) offset() int64    { return int64(x.line.ID) * 10 }
func (x *ev) ptrOffset() int64 { return x.offset() }

func (r *run) sendsStr(x *ev) string {
	var sb strings.Builder
	for _, s := range x.sends {
		fmt.Fprintf(&sb, "[%s batch %d start@%d ret@%d failed=%v]", s.sink, s.batch, s.startStep, s.retStep, s.failed)
	}
	if sb.Len() == 0 {
		return "none"
	}
	return sb.String()
}

func (r *run) where(y *ev) string {
	switch {
	case y.dlqOuts > 0:
		return "in-deadqueue-batcher"
	case y.gaveUp:
		return "given-up"
	case len(y.sends) > 0 && !y.sends[len(y.sends)-1].done:
		return "send-in-progress"
	case len(y.sends) > 0 && y.sends[len(y.sends)-1].failed:
		return "retry-pending"
	case y.outs > 0:
		return "in-main-batcher"
	case y.held:
		return "held-by-action"
	default:
		return "in-processor-or-stream"
	}
}

// ---- sink observer ----

type sinkBatch struct {
	sink  string
	batch int
}

func (r *run) OnOut(sink string, e *pipeline.Event) {
	r.dbg("OnOut %s %s", sink, evStr(e))
	if pipeline.VerifEventKind(e) == 1 { // child of a split
		// the parent is looked up once, when the child first reaches the main output: file.d releases
		// the children's JSON when the parent is finalized, so the tree must not be read later
		par := r.kidParent[e]
		if par == nil && sink == "main" {
			if n := e.Root.Dig("pid"); n != nil {
				par = r.byID[n.AsInt()]
				r.kidParent[e] = par
			}
		}
		if par != nil {
			if sink == "main" {
				par.kidsSeen++
			} else {
				par.kidsDLQ++
			}
		}
		return
	}
	x := r.byPtr[e]
	if x == nil {
		r.viol("C05", "unowned-event-at-output", "output %s received an event object no live event owns", sink)
		return
	}
	if sink == "main" {
		x.outs++
		if x.outs > 1 {
			r.viol("C02", "event-sent-to-output-twice", "id %d reached the main output %d times", x.line.ID, x.outs)
		}
	} else {
		x.dlqOuts++
	}
}

func (r *run) OnSendStart(sink string, batchNo, attempt int, iter, all []*pipeline.Event) {
	if debugOn {
		var sb strings.Builder
		for _, e := range all {
			sb.WriteString(" " + evStr(e))
		}
		r.dbg("OnSendStart %s batch %d attempt %d:%s", sink, batchNo, attempt, sb.String())
	}
	for _, e := range all {
		if pipeline.VerifEventKind(e) == 1 {
			if attempt == 0 {
				if par := r.kidParent[e]; par != nil {
					k := sinkBatch{sink, batchNo}
					r.pendingKids[k] = append(r.pendingKids[k], par)
				}
			}
			continue
		}
		x := r.byPtr[e]
		if x == nil {
			r.viol("C05", "unowned-event-in-batch", "batch %d of %s holds an event object no live event owns", batchNo, sink)
			continue
		}
		if idn := e.Root.Dig("id"); idn == nil || idn.AsInt() != x.line.ID {
			r.viol("C05", "event-content-aliased", "event object of id %d carries JSON %s at the output", x.line.ID, e.Root.EncodeToString())
		}
		x.sends = append(x.sends, &sendRec{sink: sink, batch: batchNo, startStep: simrt.Steps()})
	}
	r.sendsInFlight++
	if r.sendsInFlight > 1 {
		r.probes["sends-overlapped"]++
	}
}

func (r *run) OnSendRet(sink string, batchNo, attempt int, failed bool) {
	r.dbg("OnSendRet %s batch %d attempt %d failed=%v", sink, batchNo, attempt, failed)
	step := simrt.Steps()
	r.sendsInFlight--
	for _, x := range r.all {
		if n := len(x.sends); n > 0 {
			s := x.sends[n-1]
			if s.sink == sink && s.batch == batchNo && !s.done {
				s.done, s.failed, s.retStep = true, failed, step
				if !failed {
					r.finish(x)
				}
			}
		}
	}
	if failed {
		r.probes["send-failed"]++
		return
	}
	k := sinkBatch{sink, batchNo}
	for _, par := range r.pendingKids[k] {
		par.kidsSent++
	}
	delete(r.pendingKids, k)
	if sink == "main" {
		if batchNo < r.maxMainBatchDone {
			r.probes["later-batch-finished-first"]++
		}
		r.maxMainBatchDone = max(r.maxMainBatchDone, batchNo)
	}
}

func (r *run) OnGiveUp(sink string, batchNo int, events []*pipeline.Event) {
	r.dbg("OnGiveUp %s batch %d", sink, batchNo)
	r.probes["give-up"]++
	skip := r.cfg.DLQ == nil || sink != "main"
	for _, e := range events {
		if x := r.byPtr[e]; x != nil {
			x.gaveUp = true
			if skip {
				r.finish(x) // documented "skip message" behaviour; C09's business
			}
		}
	}
	k := sinkBatch{sink, batchNo}
	if skip {
		for _, par := range r.pendingKids[k] {
			par.kidsSent++
		}
	}
	delete(r.pendingKids, k)
}

// ---- actions ----

// dirAction obeys field "a<idx>" of the event: pass (default) / discard / break.
type dirAction struct {
	r   *run
	idx int
}

func (a *dirAction) Start(pipeline.AnyConfig, *pipeline.ActionPluginParams) {}
func (a *dirAction) Stop()                                                  {}
func (a *dirAction) Do(e *pipeline.Event) pipeline.ActionResult {
	if e.IsTimeoutKind() {
		return pipeline.ActionDiscard
	}
	n := e.Root.Dig("a" + strconv.Itoa(a.idx))
	if n == nil {
		return pipeline.ActionPass
	}
	switch n.AsString() {
	case "discard":
		return pipeline.ActionDiscard
	case "break":
		return pipeline.ActionBreak
	}
	return pipeline.ActionPass
}

// wrap records the result of every action call (real or directive).
type wrap struct {
	r     *run
	idx   int
	kind  string
	inner pipeline.ActionPlugin
}

func (w *wrap) Start(c pipeline.AnyConfig, p *pipeline.ActionPluginParams) { w.inner.Start(c, p) }
func (w *wrap) Stop()                                                      { w.inner.Stop() }
func (w *wrap) Do(e *pipeline.Event) pipeline.ActionResult {
	w.r.dbg("Do action %d (%s) %s", w.idx, w.kind, evStr(e))
	r := w.r
	var x *ev
	if !e.IsTimeoutKind() && pipeline.VerifEventKind(e) != 1 {
		x = r.byPtr[e]
		if x == nil {
			r.viol("C05", "unowned-event-in-action", "action %d (%s) received an event object no live event owns", w.idx, w.kind)
		} else if idn := e.Root.Dig("id"); idn == nil || idn.AsInt() != x.line.ID {
			r.viol("C05", "event-content-aliased", "event object of id %d carries JSON %s in action %d", x.line.ID, e.Root.EncodeToString(), w.idx)
		}
	}
	g := simrt.CurG()
	r.depth[g]++
	res := w.inner.Do(e)
	r.depth[g]--
	if (res == pipeline.ActionHold || res == pipeline.ActionCollapse) && r.depth[g] > 0 && !r.nestedHold {
		r.nestedHold = true
		r.probes["nested-hold"]++
	}
	if x == nil {
		return res
	}
	switch res {
	case pipeline.ActionDiscard, pipeline.ActionCollapse:
		x.dropped = true
		x.dropHow = fmt.Sprintf("action %d (%s) returned %d", w.idx, w.kind, res)
		r.finish(x)
		r.release(x)
		// a discard that overtakes an in-flight earlier event of the same stream
		st := r.streams[x.key]
		for i := 0; i < x.idx; i++ {
			if !st.evs[i].finished {
				r.probes["discard-overtook-in-flight"]++
				break
			}
		}
	case pipeline.ActionHold:
		x.held = true
		r.probes["hold"]++
	case pipeline.ActionBreak:
		x.broke = true
		st := r.streams[x.key]
		for i := 0; i < x.idx; i++ {
			if y := st.evs[i]; y.held && !y.finished {
				y.bypassed = true
				r.probes["break-bypassed-held-event"]++
			}
		}
	}
	return res
}

func (r *run) actionInfos() []*pipeline.ActionPluginStaticInfo {
	var infos []*pipeline.ActionPluginStaticInfo
	for i, a := range r.cfg.Actions {
		i, a := i, a
		info := &pipeline.ActionPluginStaticInfo{PluginStaticInfo: &pipeline.PluginStaticInfo{Type: a.Kind}}
		switch a.Kind {
		case "dir":
			info.Factory = func() (pipeline.AnyPlugin, pipeline.AnyConfig) {
				return &wrap{r: r, idx: i, kind: a.Kind, inner: &dirAction{r: r, idx: i}}, nil
			}
		case "join", "split", "discard":
			static, err := fd.DefaultPluginRegistry.Get(pipeline.PluginKindAction, a.Kind)
			if err != nil {
				panic(err)
			}
			var js string
			switch a.Kind {
			case "join":
				js = `{"field":"msg","start":"/^S/","continue":"/^C/"}`
				switch a.Sel {
				case "match":
					info.MatchConditions = pipeline.MatchConditions{{Field: []string{"sel"}, Values: []string{"1"}}}
					info.MatchMode = pipeline.MatchModeAnd
				case "doif":
					ch, err := doif.NewFromMap(map[string]any{"op": "equal", "field": "sel", "values": []any{"1"}})
					if err != nil {
						panic(err)
					}
					info.DoIfChecker = ch
				}
			case "split":
				js = `{"field":"kids"}`
			case "discard":
				js = `{}`
				info.MatchConditions = pipeline.MatchConditions{{Field: []string{"drop"}, Values: []string{"1"}}}
				info.MatchMode = pipeline.MatchModeAnd
			}
			conf, err := pipeline.GetConfig(static, []byte(js), map[string]int{"gomaxprocs": 1, "capacity": r.cfg.Capacity})
			if err != nil {
				panic(fmt.Sprintf("config of %s: %v", a.Kind, err))
			}
			info.Config = conf
			realFactory := static.Factory
			info.Factory = func() (pipeline.AnyPlugin, pipeline.AnyConfig) {
				pl, _ := realFactory()
				return &wrap{r: r, idx: i, kind: a.Kind, inner: pl.(pipeline.ActionPlugin)}, conf
			}
		default:
			panic("unknown action kind " + a.Kind)
		}
		infos = append(infos, info)
	}
	return infos
}

var _ = cfg.Parse

// ---- run ----

var pipeSeq int

func lineJSON(l Line) []byte {
	switch l.Bad {
	case 1:
		return []byte(`{"id":` + strconv.Itoa(l.ID) + `,"stream` + "\n")
	case 2:
		return []byte("\n")
	case 3:
		return []byte(`{"id":` + strconv.Itoa(l.ID) + `,"stream":"` + l.Stream + `","pad":"` + strings.Repeat("x", 700) + `"}` + "\n")
	}
	var sb strings.Builder
	fmt.Fprintf(&sb, `{"id":%d,"stream":%q`, l.ID, l.Stream)
	for i, d := range l.Dirs {
		if d != "" {
			fmt.Fprintf(&sb, `,"a%d":%q`, i, d)
		}
	}
	if l.MsgNum {
		sb.WriteString(`,"msg":12345`)
	} else if l.Msg != "" {
		fmt.Fprintf(&sb, `,"msg":%q`, l.Msg)
	}
	if l.Drop {
		sb.WriteString(`,"drop":"1"`)
	}
	if !l.NoSel {
		sb.WriteString(`,"sel":"1"`)
	}
	if l.Kids > 0 {
		sb.WriteString(`,"kids":[`)
		for k := 0; k < l.Kids; k++ {
			if k > 0 {
				sb.WriteString(",")
			}
			fmt.Fprintf(&sb, `{"pid":%d,"k":%d}`, l.ID, k)
		}
		sb.WriteString("]")
	}
	sb.WriteString("}\n")
	return []byte(sb.String())
}

func (h *H) Run(cc core.Cfg, sim *simrt.Sim) *core.Outcome {
	cfg := cc.(*Cfg)
	o := &core.Outcome{NonTrivial: map[string]bool{}, Probes: map[string]int{}}
	r := &run{cfg: cfg, o: o, byID: map[int]*ev{}, byPtr: map[*pipeline.Event]*ev{}, streams: map[string]*stream{}, inFlightIn: map[int]*ev{},
		depth: map[int]int{}, probes: o.Probes, pendingKids: map[sinkBatch][]*ev{}, kidParent: map[*pipeline.Event]*ev{}, maxMainBatchDone: -1}
	for _, lines := range cfg.Readers {
		for _, l := range lines {
			x := &ev{line: l, key: fmt.Sprintf("%d/%s", l.Source, l.Stream)}
			r.byID[l.ID] = x
			r.all = append(r.all, x)
		}
	}
	sort.Slice(r.all, func(i, j int) bool { return r.all[i].line.ID < r.all[j].line.ID })
	pipeSeq++
	name := fmt.Sprintf("h1_%d", pipeSeq)
	reason := sim.Run(func() {
		settings := &pipeline.Settings{
			Capacity: cfg.Capacity, MaintenanceInterval: 5 * time.Second, EventTimeout: cfg.EventTimeout,
			Antispam:     pipeline.AntispamSettings{Threshold: -1, MaintenanceInterval: 5 * time.Second},
			AvgEventSize: 128, StreamField: "stream", Decoder: "json", Pool: pipeline.PoolType(cfg.Pool),
			Metric:       &pipeline.MetricSettings{HoldDuration: time.Minute},
			MaxEventSize: cfg.MaxSize, CutOffEventByLimit: cfg.CutOff,
		}
		p := pipeline.New(name, settings, prometheus.NewRegistry(), QuietLogger())
		r.p = p
		if cfg.SingleProc {
			p.DisableParallelism()
		}
		p.SetInput(&pipeline.InputPluginInfo{PluginStaticInfo: &pipeline.PluginStaticInfo{Type: "siminput"}, PluginRuntimeInfo: &pipeline.PluginRuntimeInfo{Plugin: &input{r: r}}})
		for _, info := range r.actionInfos() {
			p.AddAction(info)
		}
		ctx, _ := simrt.ContextWithCancel(context.Background())
		p.SetOutput(&pipeline.OutputPluginInfo{PluginStaticInfo: &pipeline.PluginStaticInfo{Type: "simsink"}, PluginRuntimeInfo: &pipeline.PluginRuntimeInfo{Plugin: &simsink.Plugin{Cfg: cfg.Sink, Obs: r, Ctx: ctx}}})
		if cfg.DLQ != nil {
			p.SetDeadQueueOutput(&pipeline.OutputPluginInfo{PluginStaticInfo: &pipeline.PluginStaticInfo{Type: "simdlq"}, PluginRuntimeInfo: &pipeline.PluginRuntimeInfo{Plugin: &simsink.Plugin{Cfg: *cfg.DLQ, Obs: r, Ctx: ctx}}})
		}
		t0 := simrt.SimNow()
		p.Start()
		sim.SetOnIdle(func() {
			// C04 "a processor asleep while work is queued": nothing can run at this instant, so a stream that
			// is still charged has nobody coming for it if a processor sleeps on the streamer's condition
			if r.idleReported {
				return
			}
			if n, c := pipeline.VerifCharged(p); n > 0 {
				if cond, ok := c.(*simrt.Cond); ok && cond.Waiters() > 0 {
					r.idleReported = true
					r.viol("C04", "processor-asleep-while-stream-charged", "at %v nothing is runnable, %d streams are charged (pending events, no processor attached) and %d processors sleep waiting for a charged stream; streamer: %s", simrt.SimNow(), n, cond.Waiters(), r.dumpShort())
				}
			}
		})
		for rd, lines := range cfg.Readers {
			rd, lines := rd, lines
			simrt.Go(fmt.Sprintf("reader%d", rd), func() {
				for _, l := range lines {
					if l.Pause > 0 {
						simrt.Sleep(l.Pause)
					}
					if l.Tick {
						const beat = 200 * time.Millisecond
						at := ((simrt.SimNow()-t0+cfg.EventTimeout)/beat+1)*beat + t0 + l.TickOff
						if d := at - simrt.SimNow(); d > 0 {
							simrt.Sleep(d)
						}
					}
					x := r.byID[l.ID]
					x.inCallT = simrt.SimNow()
					r.inFlightIn[rd] = x
					seq := p.In(pipeline.SourceID(l.Source), "src"+strconv.Itoa(l.Source), pipeline.NewOffsets(x.offset(), nil), lineJSON(l), false, nil)
					delete(r.inFlightIn, rd)
					x.inRet = true
					x.inRetT = simrt.SimNow()
					x.seq = seq
				}
				r.readersDone++
			})
		}
		// wait for the readers, then for quiescence, on simulated time
		quiet := func() bool {
			if r.readersDone < len(cfg.Readers) {
				return false
			}
			for _, x := range r.all {
				if x.bound && !(len(x.commits) > 0 || x.dropped) {
					return false
				}
			}
			return true
		}
		if cfg.StopAt > 0 {
			simrt.Go("stopper", func() {
				simrt.Sleep(cfg.StopAt)
				r.stopped = true
				r.probes["pipeline-stopped"]++
				p.Stop()
			})
		}
		start := simrt.SimNow()
		deadline := cfg.Sim.QuietAt + cfg.QuietBound + r.workloadTime()
		if cfg.StopAt > 0 {
			deadline = cfg.StopAt + 30*time.Second
		}
		for !quiet() && simrt.SimNow() < deadline {
			simrt.Sleep(100 * time.Millisecond)
		}
		_ = start
		// let stragglers (late duplicate commits, heart-beats) show themselves
		simrt.Sleep(2*cfg.Sink.Flush + 3*time.Second)
		r.evaluate()
		r.evaluated = true
		simrt.Stop("done")
	})
	o.EndReason = reason
	if reason == "died" {
		d := sim.Died()
		sig := "died/other"
		prop := "C02"
		switch {
		case strings.Contains(d, "offset corruption"), strings.Contains(d, "sequence"):
			sig = "died/offset-sequence"
		case strings.Contains(d, "why "):
			sig, prop = "died/stream-state-assert", "C04"
		}
		for _, pr := range []string{"C01", "C02", "C04", "C05"} {
			_ = pr
		}
		if r.nestedHold {
			sig += "/after-nested-hold"
		} else if r.parentDoneKidsInDLQ {
			// the parent's finalization released the children's JSON while they were still queued
			sig += "/after-split-parent-committed-with-children-in-deadqueue"
		}
		o.Violate(prop, sig, "process died: %s", d)
		if prop != "C04" {
			o.Violate("C04", sig, "process died: %s", d)
		}
	} else if !r.evaluated {
		if reason == "steps" {
			o.Inconclusive = "step budget"
		} else {
			o.Inconclusive = "ended by " + reason
		}
	}
	o.NonTrivial["C01"] = r.frontierExercised
	o.NonTrivial["C02"] = r.frontierExercised || r.commitsTotal > 1
	o.NonTrivial["C04"] = r.probes["reader-blocked-on-full-pool"] > 0 || r.probes["hold"] > 0 || r.commitsTotal > 1
	o.NonTrivial["C05"] = r.maxBound >= cfg.Capacity
	o.Summary = map[string]any{"lines": len(r.all), "commits": r.commitsTotal, "max_in_flight": r.maxBound, "capacity": cfg.Capacity, "streams": len(r.streams)}
	return o
}

func (r *run) workloadTime() time.Duration {
	var worst time.Duration
	for _, lines := range r.cfg.Readers {
		var t time.Duration
		for _, l := range lines {
			t += l.Pause
			if l.Tick {
				t += r.cfg.EventTimeout + 400*time.Millisecond
			}
		}
		worst = max(worst, t)
	}
	n := time.Duration(len(r.all))
	return worst + n*(r.cfg.Sink.Flush+r.cfg.Sink.MaxLatency+time.Second)
}

// evaluate: end-of-quiet-phase verdicts (C02 accounting, C04 progress, C05 leak).
func (r *run) evaluate() {
	cfg := r.cfg
	// an output that never acknowledges (unlimited retries + a batch scripted to
	// fail for ever) legitimately holds everything back: no liveness verdicts
	deadOutput := cfg.Sink.Retry < 0 && cfg.Sink.FailFirst > 0
	if deadOutput || r.stopped {
		return // a stopped pipeline finalizes nothing any more: only the online (safety) monitors apply
	}
	if cfg.Trickle > 0 {
		// the plain lines of the other sources must have been attended to while the trickling streams kept every
		// initial processor blocked: "no stream with pending events unattended / blocked behind a multi-line action"
		for _, x := range r.all {
			if x.line.Source <= cfg.Trickle || !x.inRet {
				continue
			}
			late := len(x.commitT) == 0
			if !late && x.commitT[0]-x.inCallT > 3*time.Second {
				late = true
			}
			if late {
				when := "never"
				if len(x.commitT) > 0 {
					when = (x.commitT[0] - x.inCallT).String() + " later"
				}
				r.viol("C04", "stream-unattended-while-others-are-in-mid-multi-line", "id %d (source %d) was accepted at %v and committed %s, while %d other sources kept a join run open with a line every %v (event time-out %v, %d initial processors): its stream had no processor", x.line.ID, x.line.Source, x.inCallT, when, cfg.Trickle, cfg.EventTimeout/3, cfg.EventTimeout, 2*cfg.Sim.Procs)
				break
			}
		}
	}
	allFinal := true
	// readers
	var parked []int
	for rd := range r.inFlightIn {
		parked = append(parked, rd)
	}
	sort.Ints(parked)
	for _, rd := range parked {
		x := r.inFlightIn[rd]
		sig := "reader-parked/" + cfg.Pool
		r.viol("C04", sig, "reader %d is still inside In(id %d) (called at %v, now %v) although the pipeline holds %d/%d events and nothing else is pending", rd, x.line.ID, x.inCallT, simrt.SimNow(), r.bound, cfg.Capacity)
	}
	for _, x := range r.all {
		if !x.bound {
			if x.inRet && x.seq != 0 {
				r.viol("C02", "accepted-without-passevent", "id %d accepted (seq %d) but never shown to the input's PassEvent", x.line.ID, x.seq)
			}
			if x.inRet && x.line.Bad == 0 && x.seq == 0 && !x.rejected {
				r.viol("C05", "dropped-instead-of-blocking", "In refused a well-formed record (id %d) although nothing allows refusing it", x.line.ID)
			}
			continue
		}
		if x.inRet && x.seq == 0 {
			r.viol("C02", "accepted-but-in-returned-zero", "id %d was put into a stream but In returned 0", x.line.ID)
		}
		switch {
		case x.dropped && len(x.commits) > 0:
			// reported online
		case x.dropped:
		case len(x.commits) == 1:
		case len(x.commits) > 1:
			// reported online
		default:
			where := r.where(x)
			if where == "held-by-action" && x.bypassed {
				where += "/bypassed-by-break"
			}
			allFinal = false
			sig := "unfinalized/" + where
			prop := "C04"
			r.viol(prop, sig, "id %d (src %d stream %s) accepted at %v is neither committed nor dropped at %v: %s; streamer: %s", x.line.ID, x.line.Source, x.line.Stream, x.inCallT, simrt.SimNow(), where, r.dumpShort())
			r.viol("C02", "unaccounted/"+where, "id %d (src %d stream %s) is neither committed nor dropped once the pipeline is idle: %s", x.line.ID, x.line.Source, x.line.Stream, where)
			if where != "retry-pending" && where != "send-in-progress" {
				// nothing is being sent or retried any more, yet the event still occupies the pool
				r.viol("C05", "leak/"+where, "id %d (src %d stream %s) is still held by the pipeline (%s) long after the input went silent and the output finished: in-use never returns to zero (pool reports %d in use)", x.line.ID, x.line.Source, x.line.Stream, where, pipeline.VerifInUse(r.p))
			}
		}
	}
	if allFinal && len(r.inFlightIn) == 0 {
		if iu := pipeline.VerifInUse(r.p); iu != 0 {
			r.viol("C05", "leak", "pipeline idle but pool reports %d events in use (harness sees %d bound)", iu, r.bound)
		}
		if w := pipeline.VerifWaiters(r.p); w != 0 {
			r.viol("C05", "waiters-at-idle", "pipeline idle but pool reports %d waiters", w)
		}
		if ch, bl := pipeline.VerifChargedBlocked(r.p); ch != 0 {
			r.viol("C04", "charged-stream-at-idle", "pipeline idle but %d streams are charged, %d blocked", ch, bl)
		}
	}
}

func (r *run) dumpShort() string {
	d := pipeline.VerifDump(r.p)
	d = strings.ReplaceAll(d, "\n", " | ")
	if len(d) > 600 {
		d = d[:600]
	}
	return d
}
