// Package h3offsets is harness H3o: the offsets save/load protocol of the file
// input (real jobProvider.commit, offsetDB.save/load, saveOffsetsCyclic) and
// of package offset (SaveYAML/LoadYAML) on the simulated disk, with a sweep
// over every crash / fault position of every save. Decides C07.
package h3offsets

import (
	"errors"
	"fmt"
	"math/rand/v2"
	"sort"
	"strings"
	"syscall"
	"time"

	"github.com/ozontech/file.d/offset"
	"github.com/ozontech/file.d/pipeline"
	"github.com/ozontech/file.d/plugin/input/file"
	"github.com/ozontech/file.d/zz_verifharness/core"
	_ "github.com/ozontech/file.d/zz_verifharness/h1pipe" // quiet logger
	"verif/simrt"
	"verif/simrt/simos"
)

func init() { core.Register(&H{}) }

type JobCfg struct {
	SourceID uint64   `json:"source_id"`
	Inode    uint64   `json:"inode"`
	Filename string   `json:"filename"`
	Streams  []string `json:"streams"`
}

type CommitOp struct {
	Job    int           `json:"job"`
	Stream int           `json:"stream"`
	Delta  int64         `json:"delta"`
	Pause  time.Duration `json:"pause,omitempty"`
}

type Inject struct {
	Op    int    `json:"op"`              // I/O operation number (1-based) of the whole run
	Kind  string `json:"kind"`            // kill | power | err | short
	Power string `json:"power,omitempty"` // none | all | rand : how much un-synced state survives
}

type Cfg struct {
	Sim          simrt.Config  `json:"sim"`
	YAML         bool          `json:"yaml"` // package offset (journalctl/dmesg path) instead of the file input's offsetDB
	Sync         bool          `json:"sync_mode"`
	Interval     time.Duration `json:"async_interval"`
	Jobs         []JobCfg      `json:"jobs"`
	Commits      [][]CommitOp  `json:"commits"`
	Enumerate    bool          `json:"enumerate"`
	Inject       *Inject       `json:"inject,omitempty"`
	RandomFaults bool          `json:"random_faults,omitempty"`
	FinalKill    string        `json:"final_kill,omitempty"` // "", kill, power-none, power-all, power-rand at a seeded instant
	KillAt       time.Duration `json:"kill_at,omitempty"`
}

func (c *Cfg) SimCfg() *simrt.Config { return &c.Sim }

type H struct{ lastInject *Inject }

func (h *H) Name() string     { return "h3offsets" }
func (h *H) Props() []string  { return []string{"C07"} }
func (h *H) NewCfg() core.Cfg { return &Cfg{} }

var streamNames = []string{"stdout", "stderr", "a:b", ": ", "поток", "s p a c e", "not_set", "x", strings.Repeat("long", 40)}
var fileNames = []string{"/data/logs/a.log", "/data/logs/with space.log", "/data/logs/колон:ка.log", "/data/logs/dir/b-json.log", "/data/logs/- file: x.log"}

func (h *H) Gen(rng *rand.Rand, tier, prop string) core.Cfg {
	c := &Cfg{}
	c.Sim = simrt.Config{PSwitch: core.Pick(rng, 0.02, 0.1, 0.3), StepCost: time.Microsecond, MaxSteps: 300_000, Horizon: 10 * time.Minute, Faults: map[string]float64{}}
	c.YAML = core.Chance(rng, 0.2)
	c.Sync = core.Chance(rng, 0.4)
	c.Interval = core.DurBetween(rng, 5*time.Millisecond, 500*time.Millisecond)
	nj := core.Between(rng, 1, 4)
	if c.YAML {
		nj = 1
	}
	for j := 0; j < nj; j++ {
		jc := JobCfg{SourceID: uint64(1000 + j*7 + rng.IntN(5)), Inode: uint64(100 + j), Filename: fileNames[rng.IntN(len(fileNames))]}
		if core.Chance(rng, 0.1) {
			jc.SourceID = 1<<63 + uint64(j)
		}
		ns := core.Between(rng, 1, 3)
		perm := rng.Perm(len(streamNames))
		for s := 0; s < ns; s++ {
			jc.Streams = append(jc.Streams, streamNames[perm[s]])
		}
		if !c.YAML && core.Chance(rng, 0.04) {
			// names the line-oriented offsets format cannot represent (known finding, see DESIGN.md)
			jc.Streams[0] = core.Pick(rng, "", "two\nlines")
		}
		c.Jobs = append(c.Jobs, jc)
	}
	ng := core.Between(rng, 1, 3)
	maxOps := 6
	if tier == "thorough" {
		maxOps = 12
	}
	for g := 0; g < ng; g++ {
		var ops []CommitOp
		n := core.Between(rng, 1, maxOps)
		var own []int
		for j := range c.Jobs {
			if j%ng == g {
				own = append(own, j)
			}
		}
		if len(own) == 0 {
			continue
		}
		for i := 0; i < n; i++ {
			j := own[rng.IntN(len(own))]
			op := CommitOp{Job: j, Stream: rng.IntN(len(c.Jobs[j].Streams)), Delta: int64(core.Between(rng, 1, 1000))}
			if core.Chance(rng, 0.05) {
				op.Delta = 1 << 61
			}
			if core.Chance(rng, 0.5) {
				op.Pause = core.DurBetween(rng, time.Millisecond, 2*c.Interval)
			}
			ops = append(ops, op)
		}
		c.Commits = append(c.Commits, ops)
	}
	switch {
	case core.Chance(rng, 0.6):
		c.Enumerate = true
	case core.Chance(rng, 0.5):
		c.RandomFaults = true
		c.Sim.Faults["disk.write"] = 0.1
		c.Sim.Faults["disk.short"] = 0.1
		c.Sim.Faults["disk.sync"] = 0.1
		c.Sim.Faults["disk.rename"] = 0.05
		c.Sim.Faults["disk.open"] = 0.05
		c.FinalKill = core.Pick(rng, "kill", "power-none", "power-all", "power-rand")
		c.KillAt = core.DurBetween(rng, time.Millisecond, 2*time.Second)
	default:
		c.FinalKill = core.Pick(rng, "kill", "power-none", "power-all", "power-rand")
		c.KillAt = core.DurBetween(rng, time.Millisecond, 2*time.Second)
	}
	return c
}

func (h *H) Shrink(cc core.Cfg) []core.Cfg {
	c := cc.(*Cfg)
	var out []core.Cfg
	clone := func() *Cfg {
		d := *c
		d.Jobs = append([]JobCfg(nil), c.Jobs...)
		d.Commits = make([][]CommitOp, len(c.Commits))
		for i := range c.Commits {
			d.Commits[i] = append([]CommitOp(nil), c.Commits[i]...)
		}
		return &d
	}
	if c.Enumerate && h.lastInject != nil {
		d := clone()
		d.Enumerate = false
		inj := *h.lastInject
		d.Inject = &inj
		out = append(out, d)
	}
	for i := range c.Commits {
		if len(c.Commits) > 1 {
			d := clone()
			d.Commits = append(d.Commits[:i], d.Commits[i+1:]...)
			out = append(out, d)
		}
		if n := len(c.Commits[i]); n > 1 {
			d := clone()
			d.Commits[i] = d.Commits[i][:n-1]
			out = append(out, d)
		}
	}
	return out
}

// ---- one scenario execution ----

type key struct {
	src    uint64
	stream string
}

type scen struct {
	cfg           *Cfg
	inj           *Inject
	o             *core.Outcome
	started       map[key][]int64 // every value whose commit call has started
	done          map[key]int64   // latest value whose commit call has returned
	lower         map[key]int64   // state at the start of the last successful, completed save
	saveSnap      map[key]int64   // snapshot taken at the create of the save in progress
	saveBad       bool            // a fault was injected into the save in progress
	saves         int
	goodSaves     int
	ops           int
	opKinds       []string
	injected      bool
	crashed       bool
	injectedKinds map[string]int
	recs          []*saveRec // every save that began: what a complete snapshot of it may contain
	curRec        *saveRec
	pendingDur    map[key]int64
	powerLost     bool
	lastSync      int
	durLower      map[key]int64 // lower bound that also survives power loss (rename made durable by a later fsync)
}

type saveRec struct {
	lower, upper map[key]int64
}

func (s *scen) latestStarted() map[key]int64 {
	m := map[key]int64{}
	for k, vs := range s.started {
		if len(vs) > 0 {
			m[k] = vs[len(vs)-1]
		}
	}
	return m
}

func copyMap(m map[key]int64) map[key]int64 {
	c := map[key]int64{}
	for k, v := range m {
		c[k] = v
	}
	return c
}

// promote: a sync that succeeded since the last look made every earlier rename durable
func (s *scen) promote(fs *simos.FS) {
	if fs.SyncCount != s.lastSync {
		s.lastSync = fs.SyncCount
		if s.pendingDur != nil {
			s.durLower = s.pendingDur
		}
	}
}

func isTmp(p string) bool { return strings.Contains(p, ".atomic.") || strings.HasSuffix(p, ".tmp") }

func (s *scen) hook(fs *simos.FS) func(op simos.Op) simos.Outcome {
	return func(op simos.Op) simos.Outcome {
		switch op.Kind {
		case "readfile", "read", "open":
			if !isTmp(op.Path) {
				return simos.Outcome{}
			}
		}
		s.promote(fs)
		s.ops++
		if len(s.opKinds) < 4096 {
			s.opKinds = append(s.opKinds, op.Kind)
		}
		// save bookkeeping
		if op.Kind == "create" && isTmp(op.Path) && !s.cfg.YAML {
			s.faultsSince(fs)
			s.saveSnap = map[key]int64{}
			for k, v := range s.done {
				s.saveSnap[k] = v
			}
			s.saveBad = false
			s.saves++
			s.curRec = &saveRec{lower: copyMap(s.done), upper: s.latestStarted()}
			s.recs = append(s.recs, s.curRec)
		}
		if op.Kind == "write" && isTmp(op.Path) && s.curRec != nil && !s.cfg.YAML {
			s.curRec.upper = s.latestStarted()
		}
		if op.Kind == "sync" && !s.cfg.YAML {
			// a successful fsync also commits the journal: every earlier rename is durable now
			s.pendingDur = copyMap(s.lower)
		}
		var out simos.Outcome
		if s.inj != nil && s.ops == s.inj.Op && !s.injected {
			s.injected = true
			switch s.inj.Kind {
			case "kill", "power":
				s.crashed = true
				out.Crash = true
				return out
			case "err":
				switch op.Kind {
				case "create", "open":
					out.Err = syscall.EACCES
				case "write", "sync":
					out.Err = syscall.EIO
				case "rename":
					out.Err = syscall.EIO
				default:
					s.injected = false // not a faultable call: nothing injected
				}
			case "short":
				if op.Kind == "write" {
					out.Short = 1 + s.ops%7
				} else {
					s.injected = false
				}
			}
			if out.Err != nil || out.Short > 0 {
				s.saveBad = true
				s.injectedKinds[s.inj.Kind+"@"+op.Kind]++
			}
		}
		if op.Kind == "close" && isTmp(op.Path) && s.saveSnap != nil && !s.cfg.YAML {
			// the save that created this temp file has run to its end
			if !s.saveBad && !s.faultsSince(fs) {
				s.lower = s.saveSnap
				s.goodSaves++
			}
			s.saveSnap = nil
		}
		return out
	}
}

// random-fault runs: any PRNG-injected disk fault during the save spoils it
var faultKinds = []string{"disk.write", "disk.short", "disk.sync", "disk.rename", "disk.open"}

func (s *scen) faultCount() int {
	n := 0
	for _, k := range faultKinds {
		n += simrt.Active().Faults()[k]
	}
	return n
}

var lastFaultCount int

func (s *scen) faultsSince(fs *simos.FS) bool {
	n := s.faultCount()
	bad := n != lastFaultCount
	lastFaultCount = n
	return bad
}

const offsetsPath = "/data/offsets.yaml"

type yamlState struct {
	// Cursor: a string whose length goes up and down from save to save (as a journald cursor does), so that a
	// snapshot can be shorter than what an earlier, failed save left in the temporary file
	Cursor  string           `json:"cursor"`
	Offsets map[string]int64 `json:"offsets"`
}

func (s *scen) run(sim *simrt.Sim) string {
	cfg := s.cfg
	s.started = map[key][]int64{}
	s.done = map[key]int64{}
	s.lower = map[key]int64{}
	s.injectedKinds = map[string]int{}
	lastFaultCount = 0
	return sim.Run(func() {
		fs := simos.NewFS()
		fs.MkdirAllDirect("/data")
		fs.Hook = s.hook(fs)
		finished := false
		grp := simrt.GoGroup("filed", func() {
			var wg simrt.WaitGroup
			var v *file.VerifOffsets
			ystate := &yamlState{Offsets: map[string]int64{}}
			if !cfg.YAML {
				v = file.VerifNewOffsets(offsetsPath, cfg.Sync)
				for _, j := range cfg.Jobs {
					v.AddJob(j.SourceID, j.Inode, j.Filename)
				}
				if !cfg.Sync {
					simrt.Go("async-saver", func() { v.RunAsyncSaver(int64(cfg.Interval)) })
				}
			}
			var seq uint64
			var ymu simrt.Mutex
			for g, ops := range cfg.Commits {
				ops := ops
				wg.Add(1)
				simrt.Go(fmt.Sprintf("committer%d", g), func() {
					defer wg.Done()
					for _, op := range ops {
						if op.Pause > 0 {
							simrt.Sleep(op.Pause)
						}
						j := cfg.Jobs[op.Job]
						k := key{j.SourceID, j.Streams[op.Stream]}
						// offsets of one stream only grow; committers serialise per key through the harness
						cur := int64(0)
						if vs := s.started[k]; len(vs) > 0 {
							cur = vs[len(vs)-1]
						}
						val := cur + op.Delta
						if val < cur {
							val = cur + 1
						}
						s.started[k] = append(s.started[k], val)
						if cfg.YAML {
							ymu.Lock()
							ystate.Offsets[k.stream] = val
							ystate.Cursor = strings.Repeat("c", int(uint64(val)*7%23))
							snap := map[key]int64{}
							for kk, vv := range s.done {
								snap[kk] = vv
							}
							s.saves++
							s.recs = append(s.recs, &saveRec{lower: snap, upper: s.latestStarted()})
							err := offset.SaveYAML(offsetsPath, ystate)
							if err == nil {
								s.lower = snap
								s.goodSaves++
							}
							ymu.Unlock()
						} else {
							seq++
							v.Commit(pipeline.VerifNewEvent(pipeline.SourceID(j.SourceID), pipeline.StreamName(k.stream), val, seq))
						}
						if s.done[k] < val {
							s.done[k] = val
						}
					}
				})
			}
			wg.Wait()
			if !cfg.YAML && !cfg.Sync {
				simrt.Sleep(3 * cfg.Interval)
			}
			finished = true
		})
		if cfg.FinalKill != "" && s.inj == nil {
			fired := false
			simrt.Go("killer", func() { simrt.Sleep(cfg.KillAt); fired = true })
			simrt.WaitUntil(func() bool { return finished || fs.Frozen || fired })
			if fired && !finished {
				s.crashed = true
			}
		} else {
			simrt.WaitUntil(func() bool { return finished || fs.Frozen })
		}
		fs.Frozen = true
		s.promote(fs)
		simrt.KillGroup(grp)
		fs.Hook = nil
		power := ""
		if s.inj != nil && s.inj.Kind == "power" {
			power = s.inj.Power
		} else if strings.HasPrefix(cfg.FinalKill, "power-") && s.crashed {
			power = strings.TrimPrefix(cfg.FinalKill, "power-")
		}
		if power != "" {
			w := sim.WorldRand()
			fs.PowerLoss(func(n int) int {
				switch power {
				case "none":
					return 0
				case "all":
					return n
				}
				return w.IntN(n + 1)
			})
			s.o.Probes["power-loss"]++
			s.powerLost = true
		}
		fs.Thaw()
		simrt.SetFaults(false)
		s.check(fs)
		simrt.Stop("done")
	})
}

func (s *scen) describe() string {
	if s.inj != nil {
		kind := "?"
		if s.inj.Op-1 < len(s.opKinds) && s.inj.Op >= 1 {
			kind = s.opKinds[s.inj.Op-1]
		}
		return fmt.Sprintf("injection %s%s at I/O op #%d (%s)", s.inj.Kind, s.inj.Power, s.inj.Op, kind)
	}
	if s.cfg.FinalKill != "" {
		return fmt.Sprintf("%s at %v", s.cfg.FinalKill, s.cfg.KillAt)
	}
	return "no crash"
}

func (s *scen) faultClass() string {
	if s.inj != nil {
		switch s.inj.Kind {
		case "err", "short":
			kind := "?"
			if s.inj.Op-1 < len(s.opKinds) && s.inj.Op >= 1 {
				kind = s.opKinds[s.inj.Op-1]
			}
			return "after-failed-" + kind
		case "power":
			return "after-power-loss"
		case "kill":
			return "after-kill"
		}
	}
	if s.cfg.RandomFaults {
		return "with-random-disk-faults"
	}
	if strings.HasPrefix(s.cfg.FinalKill, "power") {
		return "after-power-loss"
	}
	if s.cfg.FinalKill == "kill" {
		return "after-kill"
	}
	return "no-fault"
}

func comp(cfg *Cfg) string {
	if cfg.YAML {
		return "offset.SaveYAML"
	}
	return "offsetDB.save"
}

// check: a fresh load of what is on disk now.
func (s *scen) check(fs *simos.FS) {
	cfg := s.cfg
	loaded := map[key]int64{}
	raw, exists := fs.ReadDirect(offsetsPath)
	if cfg.YAML {
		st := &yamlState{Offsets: map[string]int64{}}
		err := offset.LoadYAML(offsetsPath, st)
		if err != nil {
			s.o.Violate("C07", "unloadable/"+comp(cfg)+"/"+s.faultClass(), "%s: offsets file cannot be loaded: %v; content %q", s.describe(), err, trunc(raw))
			return
		}
		for str, v := range st.Offsets {
			loaded[key{cfg.Jobs[0].SourceID, str}] = v
		}
	} else {
		var tbl map[uint64]file.VerifLoaded
		var err error
		func() {
			defer func() {
				if r := recover(); r != nil {
					err = fmt.Errorf("panic: %v", r)
				}
			}()
			tbl, err = file.VerifLoadOffsets(offsetsPath)
		}()
		if err != nil {
			why := "parse-error"
			if bad := unparseableName(cfg); bad != "" {
				why = bad
			}
			s.o.Violate("C07", "unloadable/"+comp(cfg)+"/"+why+"/"+s.faultClass(), "%s: offsets file cannot be loaded: %v; content %q", s.describe(), err, trunc(raw))
			return
		}
		for src, l := range tbl {
			for str, v := range l.Streams {
				loaded[key{src, str}] = v
			}
			// file name round trip
			for _, j := range cfg.Jobs {
				if j.SourceID == src && l.Filename != j.Filename {
					s.o.Violate("C07", "filename-mismatch/"+s.faultClass(), "%s: source %d loaded with file name %q, saved %q", s.describe(), src, l.Filename, j.Filename)
				}
			}
		}
	}
	_ = exists
	// upper bound: only values whose commit had started; nothing that was never committed
	for k, v := range loaded {
		ok := false
		for _, x := range s.started[k] {
			if x == v {
				ok = true
			}
		}
		if !ok {
			s.o.Violate("C07", "value-never-committed/"+comp(cfg)+"/"+s.faultClass(), "%s: loaded %d/%q=%d, but that value was never committed (committed: %v); content %q", s.describe(), k.src, k.stream, v, s.started[k], trunc(raw))
		}
	}
	// completeness: what is on disk is a complete snapshot of SOME save that began
	powerLoss := s.powerLost
	lower := s.lower
	if powerLoss {
		lower = s.durLower
	}
	if len(loaded) == 0 {
		if len(lower) > 0 {
			s.o.Violate("C07", "good-snapshot-lost/"+comp(cfg)+"/"+s.faultClass(), "%s: an earlier save had completed%s with %v, but the offsets file now loads empty; content %q", s.describe(), map[bool]string{true: " and was made durable", false: ""}[powerLoss], lower, trunc(raw))
		}
		return
	}
	match := false
	for _, r := range s.recs {
		ok := true
		for k, v := range r.lower {
			if got, has := loaded[k]; !has || got < v {
				ok = false
			}
		}
		for k, v := range loaded {
			if up, has := r.upper[k]; !has || v > up {
				ok = false
			}
		}
		if ok {
			match = true
			break
		}
	}
	if !match {
		s.o.Violate("C07", "not-a-complete-snapshot/"+comp(cfg)+"/"+s.faultClass(), "%s: the loaded table %v is not a complete snapshot of any save that had begun (%d saves); content %q", s.describe(), loaded, len(s.recs), trunc(raw))
		return
	}
	var ks []key
	for k := range lower {
		ks = append(ks, k)
	}
	sort.Slice(ks, func(i, j int) bool {
		return ks[i].src < ks[j].src || (ks[i].src == ks[j].src && ks[i].stream < ks[j].stream)
	})
	for _, k := range ks {
		want := lower[k]
		got, has := loaded[k]
		if !has || got < want {
			s.o.Violate("C07", "good-snapshot-lost/"+comp(cfg)+"/"+s.faultClass(), "%s: an earlier save had completed successfully with %d/%q>=%d, but the file on disk now loads %v (present=%v); content %q", s.describe(), k.src, k.stream, want, got, has, trunc(raw))
			break
		}
	}
}

func unparseableName(cfg *Cfg) string {
	for _, j := range cfg.Jobs {
		if strings.ContainsAny(j.Filename, "\n") {
			return "newline-in-file-name"
		}
		for _, s := range j.Streams {
			if s == "" {
				return "empty-stream-name"
			}
			if strings.ContainsAny(s, "\n") {
				return "newline-in-stream-name"
			}
		}
	}
	return ""
}

func trunc(b []byte) string {
	if len(b) > 300 {
		return string(b[:300]) + "..."
	}
	return string(b)
}

var errUnused = errors.New("unused")

func (h *H) Run(cc core.Cfg, sim *simrt.Sim) *core.Outcome {
	cfg := cc.(*Cfg)
	h.lastInject = nil
	o := &core.Outcome{NonTrivial: map[string]bool{}, Probes: map[string]int{}}
	base := &scen{cfg: cfg, inj: cfg.Inject, o: o}
	reason := base.run(sim)
	o.EndReason = reason
	if reason != "done" {
		if reason == "died" {
			o.Violate("C07", "died/"+comp(cfg), "process died: %s", sim.Died())
		} else {
			o.Inconclusive = "ended by " + reason
		}
		return o
	}
	points := 0
	if cfg.Enumerate && cfg.Inject == nil {
		// sweep: every I/O step of the fault-free run x every outcome
		n := base.ops
		kinds := base.opKinds
		for op := 1; op <= n && op <= len(kinds); op++ {
			var injs []Inject
			injs = append(injs, Inject{Op: op, Kind: "kill"}, Inject{Op: op, Kind: "power", Power: "none"}, Inject{Op: op, Kind: "power", Power: "all"}, Inject{Op: op, Kind: "power", Power: "rand"})
			switch kinds[op-1] {
			case "create", "sync", "rename":
				injs = append(injs, Inject{Op: op, Kind: "err"})
			case "write":
				injs = append(injs, Inject{Op: op, Kind: "err"}, Inject{Op: op, Kind: "short"})
			}
			for i := range injs {
				inj := injs[i]
				sub := &scen{cfg: cfg, inj: &inj, o: o}
				before := len(o.Violations)
				sc := cfg.Sim
				ssim := simrt.New(sc)
				r := sub.run(ssim)
				points++
				for k, v := range ssim.Probes() {
					o.Probes[k] += v
				}
				o.Probes["inject."+inj.Kind+inj.Power]++
				for k, v := range sub.injectedKinds {
					o.Probes["fault."+k] += v
				}
				if r == "died" {
					o.Violate("C07", "died/"+comp(cfg), "%s: process died: %s", sub.describe(), ssim.Died())
				}
				if len(o.Violations) > before && h.lastInject == nil {
					h.lastInject = &inj
				}
				if len(o.Violations) > before {
					// one violating point per scenario is enough for the report
					goto out
				}
			}
		}
	out:
	} else if cfg.Inject != nil {
		points = 1
	}
	o.Probes["sweep-points"] += points
	o.NonTrivial["C07"] = base.saves > 0 && (points > 0 || base.crashed || cfg.RandomFaults)
	o.Summary = map[string]any{"component": comp(cfg), "io_ops": base.ops, "saves": base.saves, "good_saves": base.goodSaves, "sweep_points": points, "sync_mode": cfg.Sync, "jobs": len(cfg.Jobs)}
	return o
}
