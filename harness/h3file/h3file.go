// Package h3file holds harness families H3 (real file input plugin on the
// simulated disk + real pipeline + simsink, with kill/restart incarnations:
// decides C03) and H3w (the plugin started directly with a recording
// controller: decides C06).
package h3file

import (
	"context"
	"fmt"
	"math/rand/v2"
	"os"
	"regexp"
	"sort"
	"strconv"
	"strings"
	"time"

	"github.com/ozontech/file.d/fd"
	"github.com/ozontech/file.d/pipeline"
	"github.com/ozontech/file.d/plugin/input/file"
	"github.com/ozontech/file.d/zz_verifharness/core"
	"github.com/ozontech/file.d/zz_verifharness/h1pipe"
	"github.com/ozontech/file.d/zz_verifharness/simsink"
	"github.com/prometheus/client_golang/prometheus"
	"verif/simrt"
	"verif/simrt/simnotify"
	"verif/simrt/simos"
)

func init() { core.Register(&H{}) }

// WOp is one step of the external log writer.
type WOp struct {
	Kind   string        `json:"kind"` // line | partial | complete | rotate | truncate | create
	File   int           `json:"file"` // logical log index
	ID     int           `json:"id,omitempty"`
	Stream string        `json:"stream,omitempty"`
	Pad    int           `json:"pad,omitempty"`
	Pause  time.Duration `json:"pause,omitempty"`
}

type Cfg struct {
	Sim         simrt.Config    `json:"sim"`
	Files       int             `json:"files"`
	Ops         []WOp           `json:"ops"`
	Sync        bool            `json:"sync_mode"`
	AsyncIvl    time.Duration   `json:"async_interval"`
	MaintIvl    time.Duration   `json:"maintenance_interval"`
	WatchWrites bool            `json:"watch_writes"`
	Workers     int             `json:"workers"`
	ReadBuf     int             `json:"read_buffer"`
	Capacity    int             `json:"capacity"`
	SingleProc  bool            `json:"single_proc"`
	Pool        string          `json:"pool"`
	Sink        simsink.Config  `json:"sink"`
	Kills       []time.Duration `json:"kills"` // simulated instants of kill
	Down        []time.Duration `json:"down"`  // how long file.d stays down after each kill
	Power       bool            `json:"power"` // kills are power losses for file.d's own writes
	Bound       time.Duration   `json:"bound"`
	// CRI: the lines are written in the CRI log format ("<time> stdout|stderr F <payload>"), the pipeline decodes them
	// with the cri decoder and has its antispam enabled (with a threshold nothing reaches): Pipeline.In then applies
	// its own early "already committed" test to the per-stream offsets the file worker hands over
	CRI bool `json:"cri,omitempty"`
	// Archive: a complete lz4-compressed log (arch.lz4) that lies in the watched directory from the start. Its lines
	// are promised like any others; offsets are positions in the decompressed content, and after a restart the
	// worker decodes and skips what was committed instead of seeking
	Archive []ArchLine `json:"lz4_archive,omitempty"`
}

type ArchLine struct {
	ID     int    `json:"id"`
	Stream string `json:"stream"`
	Pad    int    `json:"pad"`
}

func (c *Cfg) SimCfg() *simrt.Config { return &c.Sim }

type H struct{}

func (h *H) Name() string     { return "h3file" }
func (h *H) Props() []string  { return []string{"C03"} }
func (h *H) NewCfg() core.Cfg { return &Cfg{} }

func (h *H) Gen(rng *rand.Rand, tier, prop string) core.Cfg {
	c := &Cfg{}
	c.Sim = simrt.Config{
		PSwitch:  core.Pick(rng, 0.005, 0.02, 0.05, 0.15),
		StepCost: time.Duration(core.Between(rng, 0, 3)) * time.Microsecond,
		MaxSteps: 3_000_000, Horizon: 2 * time.Hour,
		Faults: map[string]float64{}, Boost: map[string]float64{}, Procs: core.Pick(rng, 1, 1, 2),
	}
	if core.Chance(rng, 0.3) {
		c.Sim.Boost["io"] = 3
	}
	c.Files = core.Between(rng, 1, 3)
	// a profile aimed at resume positions of files that carry several streams: one file, three streams,
	// lines in quick succession, out-of-order acknowledgements, offsets saved often, one kill in mid-stream
	multi := core.Chance(rng, 0.2)
	if multi {
		c.Files = 1
	}
	c.Sync = core.Chance(rng, 0.3)
	c.AsyncIvl = core.DurBetween(rng, 50*time.Millisecond, 2*time.Second)
	c.MaintIvl = core.DurBetween(rng, 100*time.Millisecond, 5*time.Second)
	c.WatchWrites = core.Chance(rng, 0.5)
	c.Workers = core.Between(rng, 1, 4)
	c.ReadBuf = core.Pick(rng, 16, 32, 64, 128, 4096)
	c.Capacity = core.Pick(rng, 2, 4, 16, 64)
	c.SingleProc = core.Chance(rng, 0.4)
	c.Pool = core.Pick(rng, "std", "low_memory")
	streams := []string{"a", "b", "c"}[:core.Between(rng, 1, 3)]
	c.CRI = core.Chance(rng, 0.2)
	if c.CRI {
		streams = []string{"stdout", "stderr"}[:core.Between(rng, 1, 2)]
	}
	if multi {
		c.CRI = false
		streams = []string{"a", "b", "c"}
		c.Sync = core.Chance(rng, 0.6)
		c.AsyncIvl = core.DurBetween(rng, 5*time.Millisecond, 100*time.Millisecond)
	}
	maxOps := 40
	if tier == "thorough" {
		maxOps = 150
	}
	n := core.Between(rng, 3, maxOps)
	id := 0
	partial := make([]bool, c.Files)
	for i := 0; i < n; i++ {
		f := rng.IntN(c.Files)
		op := WOp{File: f}
		switch {
		case partial[f]:
			op.Kind = "complete"
			partial[f] = false
		case core.Chance(rng, 0.1):
			id++
			op.Kind, op.ID, op.Stream, op.Pad = "partial", id, streams[rng.IntN(len(streams))], core.Between(rng, 0, 40)
			partial[f] = true
		case !multi && core.Chance(rng, 0.08):
			op.Kind = "rotate"
		default:
			id++
			op.Kind, op.ID, op.Stream, op.Pad = "line", id, streams[rng.IntN(len(streams))], core.Between(rng, 0, 60)
		}
		switch {
		case core.Chance(rng, 0.5):
		case multi:
			op.Pause = core.DurBetween(rng, time.Millisecond, 20*time.Millisecond)
		case core.Chance(rng, 0.8):
			op.Pause = core.DurBetween(rng, time.Millisecond, 300*time.Millisecond)
		default:
			op.Pause = core.DurBetween(rng, 300*time.Millisecond, 3*time.Second)
		}
		c.Ops = append(c.Ops, op)
	}
	for f := range partial {
		if partial[f] {
			c.Ops = append(c.Ops, WOp{Kind: "complete", File: f})
		}
	}
	c.Sink = simsink.Config{Name: "main", Workers: core.Between(rng, 1, 3), Count: core.Between(rng, 1, 8), Flush: core.DurBetween(rng, 10*time.Millisecond, time.Second),
		Retry: core.Pick(rng, -1, 3, 5), Retention: core.DurBetween(rng, time.Millisecond, 100*time.Millisecond), Multiplier: 2,
		MaxLatency: core.Pick(rng, 0, 10*time.Millisecond, 200*time.Millisecond)}
	if core.Chance(rng, 0.3) {
		c.Sim.Faults["sink.fail"] = core.Pick(rng, 0.05, 0.2)
	}
	if core.Chance(rng, 0.3) {
		c.Sim.Faults["disk.shortread"] = 0.2
	}
	if core.Chance(rng, 0.3) {
		c.Sim.Faults["notify.delay"] = 0.2
		c.Sim.Faults["notify.dup"] = 0.1
		c.Sim.Faults["notify.drop"] = 0.3
	}
	nk := core.Pick(rng, 0, 1, 1, 1, 2, 3)
	if multi {
		nk = core.Pick(rng, 1, 1, 2)
		c.Sink.Workers, c.Sink.Count = core.Between(rng, 2, 3), core.Between(rng, 1, 2)
		c.Sink.Flush = core.DurBetween(rng, 2*time.Millisecond, 30*time.Millisecond)
		c.Sink.MaxLatency = core.Pick(rng, 5*time.Millisecond, 50*time.Millisecond)
	}
	if nk == 0 && core.Chance(rng, 0.6) {
		// truncation while file.d is running (never combined with kills: after a restart a truncated
		// file that has grown past the saved offset again cannot be told from an appended one)
		nt := core.Between(rng, 1, 2)
		for t := 0; t < nt; t++ {
			at := rng.IntN(len(c.Ops) + 1)
			f := rng.IntN(c.Files)
			op := WOp{Kind: "truncate", File: f, Pause: core.DurBetween(rng, time.Millisecond, time.Second)}
			c.Ops = append(c.Ops[:at], append([]WOp{op}, c.Ops[at:]...)...)
		}
		// a partial line must not straddle a truncation
		open := map[int]bool{}
		var ops []WOp
		for _, op := range c.Ops {
			switch op.Kind {
			case "partial":
				open[op.File] = true
			case "complete":
				if !open[op.File] {
					continue
				}
				open[op.File] = false
			case "truncate":
				if open[op.File] {
					ops = append(ops, WOp{Kind: "complete", File: op.File})
					open[op.File] = false
				}
			}
			ops = append(ops, op)
		}
		c.Ops = ops
	}
	var total time.Duration
	for _, op := range c.Ops {
		total += op.Pause
		if op.Kind == "truncate" {
			total += 3*c.MaintIvl + 2*time.Second
		}
	}
	for k := 0; k < nk; k++ {
		if multi {
			c.Kills = append(c.Kills, core.DurBetween(rng, time.Millisecond, total+100*time.Millisecond))
			c.Down = append(c.Down, core.Pick(rng, time.Millisecond, 100*time.Millisecond))
			continue
		}
		c.Kills = append(c.Kills, core.DurBetween(rng, time.Millisecond, total+2*time.Second))
		c.Down = append(c.Down, core.Pick(rng, time.Millisecond, 100*time.Millisecond, 2*time.Second))
	}
	sort.Slice(c.Kills, func(i, j int) bool { return c.Kills[i] < c.Kills[j] })
	if nk > 0 && !multi && core.Chance(rng, 0.3) {
		// a truncation long after the last restart (no kill follows it): the incarnation that was started with an
		// offsets file must start the file over and deliver what is written afterwards
		f := rng.IntN(c.Files)
		c.Ops = append(c.Ops, WOp{Kind: "truncate", File: f, Pause: 5 * time.Second})
		total += 5*time.Second + 3*c.MaintIvl + 2*time.Second
		for i, k := 0, core.Between(rng, 1, 4); i < k; i++ {
			id++
			op := WOp{Kind: "line", File: f, ID: id, Stream: streams[rng.IntN(len(streams))], Pad: core.Between(rng, 0, 30), Pause: core.DurBetween(rng, time.Millisecond, 50*time.Millisecond)}
			total += op.Pause
			c.Ops = append(c.Ops, op)
		}
	}
	if core.Chance(rng, 0.12) {
		for i, k := 0, core.Between(rng, 3, 30); i < k; i++ {
			id++
			c.Archive = append(c.Archive, ArchLine{ID: id, Stream: streams[rng.IntN(len(streams))], Pad: core.Between(rng, 0, 60)})
		}
	}
	c.Power = core.Chance(rng, 0.3)
	c.Sim.QuietAt = total + 10*time.Second
	c.Bound = 90 * time.Second
	return c
}

func (h *H) Shrink(cc core.Cfg) []core.Cfg {
	c := cc.(*Cfg)
	var out []core.Cfg
	clone := func() *Cfg {
		d := *c
		d.Ops = append([]WOp(nil), c.Ops...)
		d.Kills = append([]time.Duration(nil), c.Kills...)
		d.Down = append([]time.Duration(nil), c.Down...)
		return &d
	}
	if len(c.Kills) > 1 {
		for i := range c.Kills {
			d := clone()
			d.Kills = append(d.Kills[:i], d.Kills[i+1:]...)
			d.Down = append(d.Down[:i], d.Down[i+1:]...)
			out = append(out, d)
		}
	}
	// drop operations (keeping partial/complete pairs consistent)
	drop := func(from, to int) *Cfg {
		d := clone()
		var ops []WOp
		open := map[int]bool{}
		for i, op := range c.Ops {
			if i >= from && i < to {
				continue
			}
			switch op.Kind {
			case "partial":
				if open[op.File] {
					continue // the complete that separated two partial writes was dropped
				}
				open[op.File] = true
			case "complete":
				if !open[op.File] {
					continue
				}
				open[op.File] = false
			default:
				if open[op.File] && op.Kind != "rotate" {
					// a line in the middle of a partial write is not possible
					continue
				}
			}
			ops = append(ops, op)
		}
		for f := 0; f < c.Files; f++ {
			if open[f] {
				ops = append(ops, WOp{Kind: "complete", File: f})
			}
		}
		d.Ops = ops
		return d
	}
	n := len(c.Ops)
	if n > 1 {
		out = append(out, drop(n/2, n), drop(0, n/2))
	}
	if n <= 12 {
		for i := 0; i < n; i++ {
			out = append(out, drop(i, i+1))
		}
	} else {
		for i := 0; i+4 <= n; i += 4 {
			out = append(out, drop(i, i+4))
		}
	}
	for i := range c.Ops {
		if c.Ops[i].Pause != 0 && n <= 12 {
			d := clone()
			d.Ops[i].Pause = 0
			out = append(out, d)
		}
	}
	if c.Workers > 1 {
		d := clone()
		d.Workers = 1
		out = append(out, d)
	}
	if na := len(c.Archive); na > 0 {
		d := clone()
		d.Archive = nil
		out = append(out, d)
		if na > 1 {
			d := clone()
			d.Archive = append([]ArchLine(nil), c.Archive[:na/2]...)
			out = append(out, d)
			d = clone()
			d.Archive = append([]ArchLine(nil), c.Archive[na/2:]...)
			out = append(out, d)
		}
	}
	return out
}

// ---- run ----

type lineInfo struct {
	id        int
	stream    string
	file      int
	phys      string // physical file (by inode) it was written to
	inode     uint64
	endOff    int64
	writtenAt time.Duration
	complete  bool
	delivered int
	committed int // commits that reached the input plugin
	read      int // times the input accepted it (PassEvent true)
	// written before a truncation of its file and not committed at that instant (preTruncMulti: the file carried
	// several streams): a commit of such a line is a stale commit of the old content
	preTrunc      bool
	preTruncMulti bool
	text          string
	truncatedAway bool
}

type run struct {
	cfg                   *Cfg
	o                     *core.Outcome
	fs                    *simos.FS
	lines                 map[int]*lineInfo
	order                 []*lineInfo
	curIno                []uint64 // current inode of each logical log
	rotN                  []int
	pend                  map[int]*lineInfo // logical file -> pending partial line
	sizes                 map[uint64]int64
	incarnation           int
	commitsSeen           int
	sends                 int
	killsDone             int
	nontrivialKill        bool
	lastWrite             time.Duration
	jobsAtKill            []map[uint64]map[string]int64
	savedAtKill           []map[uint64]map[string]int64
	byEvent               map[*pipeline.Event]int
	diedMsgs              []string
	acked                 map[int]bool
	unackedAtKill         int
	truncations           int
	truncMultiStream      bool
	plugins               []pipeline.AnyPlugin
	pendingSend           map[sendKey][]int
	offsetsAtKill         []string
	passed                map[passKey]bool
	rereadSameIncarnation bool
	truncUnnoticed        bool // the reader did not look at a truncated file within ten minutes
}

const logDir = "/data/logs"

func logPath(f int) string { return fmt.Sprintf("%s/app%d.log", logDir, f) }

func (r *run) lineText(l *lineInfo, pad int) string {
	if r.cfg.CRI {
		return fmt.Sprintf(`2024-01-01T00:00:00.%09dZ %s F {"id":%d,"pad":%q}`, l.id, l.stream, l.id, strings.Repeat("x", pad)) + "\n"
	}
	return fmt.Sprintf(`{"id":%d,"stream":%q,"pad":%q}`, l.id, l.stream, strings.Repeat("x", pad)) + "\n"
}

var idInLog = regexp.MustCompile(`"id":(\d+)`)

// idOf finds the harness's line id in an event (in CRI mode it sits inside the "log" string).
func idOf(e *pipeline.Event) (int, bool) {
	if n := e.Root.Dig("id"); n != nil {
		return n.AsInt(), true
	}
	if n := e.Root.Dig("log"); n != nil {
		if m := idInLog.FindStringSubmatch(n.AsString()); m != nil {
			id, _ := strconv.Atoi(m[1])
			return id, true
		}
	}
	return 0, false
}

// writer performs the external history on the disk.
func (r *run) writer() {
	for _, op := range r.cfg.Ops {
		if op.Pause > 0 {
			simrt.Sleep(op.Pause)
		} else {
			simrt.Point()
		}
		p := logPath(op.File)
		switch op.Kind {
		case "line", "partial":
			if r.pend[op.File] != nil {
				continue // an application does not start a line in the middle of another one
			}
			l := &lineInfo{id: op.ID, stream: op.Stream, file: op.File}
			l.text = r.lineText(l, op.Pad)
			r.lines[l.id] = l
			r.order = append(r.order, l)
			ino := r.curIno[op.File]
			l.inode = ino
			if op.Kind == "line" {
				r.fs.AppendDirect(p, []byte(l.text))
				r.sizes[ino] += int64(len(l.text))
				l.endOff = r.sizes[ino]
				l.complete = true
				l.writtenAt = simrt.SimNow()
			} else {
				cut := 1 + len(l.text)/2
				r.fs.AppendDirect(p, []byte(l.text[:cut]))
				r.sizes[ino] += int64(cut)
				r.pend[op.File] = l
			}
		case "complete":
			l := r.pend[op.File]
			if l == nil {
				continue
			}
			delete(r.pend, op.File)
			cut := 1 + len(l.text)/2
			// the partial line lives in the inode it was started in
			name := r.nameOfInode(l.inode)
			if name == "" {
				continue
			}
			r.fs.AppendDirect(name, []byte(l.text[cut:]))
			r.sizes[l.inode] += int64(len(l.text) - cut)
			l.endOff = r.sizes[l.inode]
			l.complete = true
			l.writtenAt = simrt.SimNow()
		case "truncate":
			if r.pend[op.File] != nil {
				continue
			}
			ino := r.curIno[op.File]
			if r.sizes[ino] == 0 {
				continue
			}
			r.fs.TruncateDirect(p)
			readsAtTrunc := r.fs.ReadCount[ino]
			r.sizes[ino] = 0
			r.truncations++
			streamsOfFile := map[string]bool{}
			for _, l := range r.order {
				if l.inode != ino {
					continue
				}
				streamsOfFile[l.stream] = true
				if l.delivered == 0 {
					l.truncatedAway = true // written before the truncation: not promised any more
				}
				if l.committed == 0 {
					// if its commit still comes, it comes after the truncation (the worker may hold the line in
					// its buffer already although the pipeline has not seen it yet): see inWrap.Commit
					l.preTrunc = true
					l.preTruncMulti = false
				}
			}
			if len(streamsOfFile) >= 2 {
				for _, l := range r.order {
					if l.inode == ino && l.preTrunc {
						l.preTruncMulti = true
					}
				}
			}
			// the application keeps quiet long enough for file.d to notice (the file is shorter
			// than what was read); what it writes afterwards must all be delivered
			simrt.Sleep(3*r.cfg.MaintIvl + 2*time.Second)
			// ... and really has noticed: with a slow pipeline the single worker may be kept from the file for
			// longer than that. A reader that has not looked at the file between the truncation and the moment the
			// file has grown past its old position again cannot know about the truncation, whatever it does.
			// (VerifReadOffset includes the position of the job's descriptor: a worker parked in Pipeline.In in the
			// middle of a pass has read ahead of what the job records.) A pipeline that commits one event per
			// flush interval can keep the worker away for minutes: wait as long as it takes within ten simulated
			// minutes; a reader that never comes back at all is C04's business, not a line lost after a truncation.
			noticed := false
			lookedAt := time.Duration(-1)
			for waited := time.Duration(0); waited < 10*time.Minute; waited += 200 * time.Millisecond {
				off, has := int64(0), false
				if n := len(r.plugins); n > 0 {
					off, has = file.VerifReadOffset(r.plugins[n-1].(*file.Plugin), ino)
				}
				if !has || off == 0 {
					noticed = true
					break
				}
				// the reader has issued a read on the (now empty) file since the truncation: it has had its look;
				// if it does not start over within the next seconds it never will, and what follows is its fault
				if lookedAt < 0 && r.fs.ReadCount[ino] > readsAtTrunc {
					lookedAt = simrt.SimNow()
				}
				if lookedAt >= 0 && simrt.SimNow()-lookedAt > 3*time.Second {
					noticed = true
					r.o.Probes["truncation-seen-by-a-read-but-position-not-reset"]++
					break
				}
				simrt.Sleep(200 * time.Millisecond)
			}
			if !noticed {
				r.truncUnnoticed = true
			}
		case "rotate":
			if r.pend[op.File] != nil {
				continue // applications finish the line before reopening their log
			}
			r.rotN[op.File]++
			old := fmt.Sprintf("%s.%d", p, r.rotN[op.File])
			if err := r.fs.RenameDirect(p, old); err != nil {
				continue
			}
			simrt.Point()
			r.fs.WriteFileDirect(p, nil)
			r.curIno[op.File] = r.fs.Ino(p)
		}
		r.lastWrite = simrt.SimNow()
	}
}

func (r *run) nameOfInode(ino uint64) string {
	for _, n := range r.fs.List(logDir) {
		if r.fs.Ino(logDir+"/"+n) == ino {
			return logDir + "/" + n
		}
	}
	return ""
}

// sink observer
func (r *run) OnOut(string, *pipeline.Event) {}
func (r *run) OnSendStart(sink string, batchNo, attempt int, iter, all []*pipeline.Event) {
	ids := make([]int, 0, len(iter))
	for _, e := range iter {
		if id, ok := idOf(e); ok {
			ids = append(ids, id)
		}
	}
	r.pendingSend[sendKey{r.incarnation, batchNo}] = ids
}
func (r *run) OnSendRet(sink string, batchNo, attempt int, failed bool) {
	if failed {
		return
	}
	k := sendKey{r.incarnation, batchNo}
	for _, id := range r.pendingSend[k] {
		if l := r.lines[id]; l != nil {
			l.delivered++
			r.acked[id] = true
		}
	}
	delete(r.pendingSend, k)
	r.sends++
}
func (r *run) OnGiveUp(sink string, batchNo int, events []*pipeline.Event) {
	// retries exhausted without a dead queue: the documented skip; those lines are not required any more
	for _, e := range events {
		if id, ok := idOf(e); ok {
			if l := r.lines[id]; l != nil {
				l.delivered++
			}
		}
	}
}

type sendKey struct{ inc, batch int }
type passKey struct {
	inc int
	src uint64
	off int64
}

// inWrap records what the pipeline shows to the input plugin.
type inWrap struct {
	r     *run
	inner pipeline.InputPlugin
}

var debug = os.Getenv("VERIF_DEBUG") != ""

func (w *inWrap) Start(c pipeline.AnyConfig, p *pipeline.InputPluginParams) { w.inner.Start(c, p) }
func (w *inWrap) Stop()                                                     { w.inner.Stop() }
func (w *inWrap) PassEvent(e *pipeline.Event) bool {
	ok := w.inner.PassEvent(e)
	k := passKey{w.r.incarnation, uint64(e.SourceID), e.Offset}
	if w.r.passed[k] && ok {
		// the same bytes of the same inode were read and accepted twice by one
		// incarnation: the job was deleted and re-created (rotation) under way
		w.r.rereadSameIncarnation = true
		w.r.o.Probes["source-reread-in-one-incarnation"]++
	}
	if ok {
		w.r.passed[k] = true
		if id, ok := idOf(e); ok {
			if l := w.r.lines[id]; l != nil {
				l.read++
			}
		}
	}
	if debug {
		fmt.Printf("[%v step %d] PassEvent src=%d %s off=%d stream=%s -> %v  %s\n", simrt.SimNow(), simrt.Steps(), e.SourceID, e.SourceName, e.Offset, pipeline.VerifEventStream(e), ok, e.Root.EncodeToString())
	}
	return ok
}
func (w *inWrap) Commit(e *pipeline.Event) {
	if debug {
		fmt.Printf("[%v step %d] Commit src=%d off=%d seq=%d stream=%s\n", simrt.SimNow(), simrt.Steps(), e.SourceID, e.Offset, e.SeqID, pipeline.VerifEventStream(e))
	}
	w.r.commitsSeen++
	if id, ok := idOf(e); ok {
		if l := w.r.lines[id]; l != nil {
			l.committed++
			if l.preTruncMulti {
				// known defect: the mark that makes the plugin ignore commits of events read before the truncation is
				// ONE sequence number per file, but sequence numbers are per stream - this stale commit may get through
				w.r.truncMultiStream = true
			}
		}
	}
	w.inner.Commit(e)
}

var pipeSeq int

// start one incarnation of file.d; returns its kill group.
func (r *run) startIncarnation() int {
	r.incarnation++
	inc := r.incarnation
	pipeSeq++
	name := fmt.Sprintf("h3_%d", pipeSeq)
	mnt := fmt.Sprintf("/mnt%d", pipeSeq) // unique per process: file.d keeps a process-global registry of offsets files
	r.fs.Alias(mnt, "/data")
	cfg := r.cfg
	return simrt.GoGroup(fmt.Sprintf("filed%d", inc), func() {
		dec, antispamThr := "json", -1
		if cfg.CRI {
			dec, antispamThr = "cri", 1_000_000
		}
		settings := &pipeline.Settings{
			Capacity: cfg.Capacity, MaintenanceInterval: 5 * time.Second, EventTimeout: time.Second,
			Antispam:     pipeline.AntispamSettings{Threshold: antispamThr, MaintenanceInterval: 5 * time.Second},
			AvgEventSize: 128, StreamField: "stream", Decoder: dec, Pool: pipeline.PoolType(cfg.Pool),
			Metric: &pipeline.MetricSettings{HoldDuration: time.Minute},
		}
		p := pipeline.New(name, settings, prometheus.NewRegistry(), h1pipe.QuietLogger())
		if cfg.SingleProc {
			p.DisableParallelism()
		}
		static, err := fd.DefaultPluginRegistry.Get(pipeline.PluginKindInput, "file")
		if err != nil {
			panic(err)
		}
		mode := "async"
		if cfg.Sync {
			mode = "sync"
		}
		js := fmt.Sprintf(`{"watching_dir":%q,"offsets_file":%q,"filename_pattern":"*","persistence_mode":%q,"async_interval":%q,"maintenance_interval":%q,"read_buffer_size":%d,"workers_count":"%d","should_watch_file_changes":%v,"report_interval":"1h"}`,
			mnt+"/logs", mnt+"/state/offsets.yaml", mode, cfg.AsyncIvl.String(), cfg.MaintIvl.String(), cfg.ReadBuf, cfg.Workers, cfg.WatchWrites)
		conf, err := pipeline.GetConfig(static, []byte(js), map[string]int{"gomaxprocs": 1, "capacity": cfg.Capacity})
		if err != nil {
			panic(fmt.Sprintf("file plugin config: %v", err))
		}
		info := *static
		info.Config = conf
		plugin, _ := static.Factory()
		r.plugins = append(r.plugins, plugin)
		p.SetInput(&pipeline.InputPluginInfo{PluginStaticInfo: &info, PluginRuntimeInfo: &pipeline.PluginRuntimeInfo{Plugin: &inWrap{r: r, inner: plugin.(pipeline.InputPlugin)}}})
		ctx, _ := simrt.ContextWithCancel(context.Background())
		p.SetOutput(&pipeline.OutputPluginInfo{PluginStaticInfo: &pipeline.PluginStaticInfo{Type: "simsink"}, PluginRuntimeInfo: &pipeline.PluginRuntimeInfo{Plugin: &simsink.Plugin{Cfg: cfg.Sink, Obs: r, Ctx: ctx}}})
		p.Start()
	})
}

func (h *H) Run(cc core.Cfg, sim *simrt.Sim) *core.Outcome {
	cfg := cc.(*Cfg)
	o := &core.Outcome{NonTrivial: map[string]bool{}, Probes: map[string]int{}}
	r := &run{cfg: cfg, o: o, lines: map[int]*lineInfo{}, pend: map[int]*lineInfo{}, sizes: map[uint64]int64{}, acked: map[int]bool{}, pendingSend: map[sendKey][]int{}, passed: map[passKey]bool{}}
	verdict := false
	defer file.VerifForgetAll() // process-global registries of the plugin package (see overlay)
	reason := sim.Run(func() {
		fs := simos.NewFS()
		r.fs = fs
		fs.TraceOn = debug
		fs.MkdirAllDirect(logDir)
		fs.MkdirAllDirect("/data/state")
		r.curIno = make([]uint64, cfg.Files)
		r.rotN = make([]int, cfg.Files)
		for f := 0; f < cfg.Files; f++ {
			fs.WriteFileDirect(logPath(f), nil)
			r.curIno[f] = fs.Ino(logPath(f))
		}
		if len(cfg.Archive) > 0 && file.VerifTreatedAsLz4("arch.lz4") {
			var content []byte
			var ls []*lineInfo
			for _, a := range cfg.Archive {
				l := &lineInfo{id: a.ID, stream: a.Stream, file: -1, complete: true}
				l.text = r.lineText(l, a.Pad)
				content = append(content, l.text...)
				l.endOff = int64(len(content))
				ls = append(ls, l)
			}
			fs.WriteFileDirect(logDir+"/arch.lz4", lz4Frame(content))
			ino := fs.Ino(logDir + "/arch.lz4")
			for _, l := range ls {
				l.inode = ino
				r.lines[l.id] = l
				r.order = append(r.order, l)
			}
			o.Probes["lz4-archive-runs"]++
		}
		writerDone := false
		simrt.Go("log-writer", func() { r.writer(); writerDone = true })
		grp := r.startIncarnation()
		for k, at := range cfg.Kills {
			if d := at - simrt.SimNow(); d > 0 {
				simrt.Sleep(d)
			}
			// what is un-acknowledged right now?
			un := 0
			for _, l := range r.order {
				if l.complete && l.delivered == 0 {
					un++
				}
			}
			if un > 0 {
				r.nontrivialKill = true
				o.Probes["kill-with-unacked-lines"]++
			}
			fs.Frozen = true
			n := simrt.KillGroup(grp)
			simnotify.StopGroup(grp)
			o.Probes["kills"]++
			_ = n
			r.pendingSend = map[sendKey][]int{}
			if cfg.Power {
				w := sim.WorldRand()
				fs.PowerLoss(func(n int) int { return w.IntN(n + 1) })
				o.Probes["power-loss"]++
			}
			fs.Thaw()
			if raw, ok := fs.ReadDirect("/data/state/offsets.yaml"); ok {
				r.offsetsAtKill = append(r.offsetsAtKill, string(raw))
			} else {
				r.offsetsAtKill = append(r.offsetsAtKill, "")
			}
			simrt.Sleep(cfg.Down[k])
			grp = r.startIncarnation()
			r.killsDone++
		}
		// quiet phase: everything required must be delivered within the bound
		simrt.WaitUntil(func() bool { return writerDone })
		deadline := simrt.SimNow() + cfg.Bound + 4*cfg.MaintIvl
		for simrt.SimNow() < deadline && !r.allDelivered() {
			simrt.Sleep(200 * time.Millisecond)
		}
		r.evaluate()
		verdict = true
		simrt.Stop("done")
	})
	o.EndReason = reason
	if reason == "died" {
		d := sim.Died()
		sig := "died/other"
		switch {
		case strings.Contains(d, "offset corruption"):
			sig = "died/offset-corruption"
			if r.rereadSameIncarnation {
				sig += "/job-recreated-for-the-same-inode-with-commits-in-flight"
			} else if r.truncMultiStream {
				// same root cause as line-lost/.../multi-stream-file-with-uncommitted-lines-at-the-truncation: the stale
				// commit of another stream is not ignored and writes the old large offset back; the next commit of a
				// line written after the truncation then trips the plugin's own offset check
				sig += "/after-truncation/multi-stream-file-with-uncommitted-lines-at-the-truncation"
			}
		case strings.Contains(d, "stat error") && strings.Contains(d, "file already closed"):
			sig = "died/deleted-job-resumed-with-closed-file"
		case strings.Contains(d, "done jobs counter less than zero") && strings.Contains(d, "deleteJobAndUnlock"):
			// maintenance unlocks the job before it removes it from the table; a notification that had looked the job up
			// resumes it in between (one decrement of the done counter), then the deletion decrements it again
			sig = "died/job-resumed-while-being-deleted/done-jobs-counter-negative"
		case strings.Contains(d, "done jobs counter is less than zero") && strings.Contains(d, "tryResumeJobAndUnlock"):
			// the same window with the two decrements in the other order: the deletion has already taken the job out of
			// the table and decremented, then the notification that had looked the job up resumes it (isDone is still set)
			sig = "died/job-resumed-while-being-deleted/done-jobs-counter-negative/at-the-resume"
		case strings.Contains(d, "can't load offsets"):
			sig = "died/cannot-load-offsets"
		}
		o.Violate("C03", sig, "file.d died on its own (incarnation %d): %s", r.incarnation, d)
	} else if !verdict {
		o.Inconclusive = "ended by " + reason
	}
	o.NonTrivial["C03"] = r.nontrivialKill || r.truncations > 0
	o.Probes["truncations"] += r.truncations
	o.Summary = map[string]any{"lines": len(r.order), "kills": r.killsDone, "incarnations": r.incarnation, "sends": r.sends, "files": cfg.Files, "power": cfg.Power}
	return o
}

func (r *run) allDelivered() bool {
	for _, l := range r.order {
		if l.complete && l.delivered == 0 && !l.truncatedAway {
			return false
		}
	}
	return true
}

func (r *run) evaluate() {
	if debug {
		for _, op := range r.fs.Trace {
			fmt.Printf("fsop %d %s %s\n", op.Seq, op.Kind, op.Path)
		}
		for _, pl := range r.plugins {
			fmt.Printf("jobs: %v\n", file.VerifJobs(pl.(*file.Plugin)))
		}
	}
	var missing []*lineInfo
	for _, l := range r.order {
		if l.complete && l.delivered == 0 && !l.truncatedAway {
			missing = append(missing, l)
		}
	}
	if len(missing) == 0 {
		return
	}
	if r.truncUnnoticed {
		// the oracle's precondition (the file does not grow past the reader's old position before the reader has
		// looked at it) could not be established
		r.o.Inconclusive = "reader kept away from a truncated file for ten minutes"
		return
	}
	l := missing[0]
	// discriminator for the known multi-stream resume defect: at some kill the
	// persisted offsets had an entry of ANOTHER stream of the same file beyond
	// this line while this line's stream had no entry at all.
	sig := "line-lost"
	for _, raw := range r.offsetsAtKill {
		if otherStreamBeyond(raw, l) {
			sig = "line-lost/stream-without-saved-offset-behind-another-stream"
			break
		}
	}
	if r.killsDone == 0 {
		sig += "/no-kill"
	}
	if l.file == -1 {
		// a line of the compressed archive, which nobody truncates
		sig += "/lz4-archive"
	} else if r.truncations > 0 {
		sig += "/after-truncation"
		if r.truncMultiStream {
			sig += "/multi-stream-file-with-uncommitted-lines-at-the-truncation"
		}
	}
	r.o.Violate("C03", sig, "%d complete lines were never delivered in any incarnation; first: id %d stream %s file inode %d end offset %d written at %v (kills at %v, now %v); offsets files at kills: %q", len(missing), l.id, l.stream, l.inode, l.endOff, l.writtenAt, r.cfg.Kills, simrt.SimNow(), r.offsetsAtKill)
}

// otherStreamBeyond parses the offsets file text: is there, for the line's
// inode, no entry of the line's stream but an entry of another stream with an
// offset >= the line's end offset?
func otherStreamBeyond(raw string, l *lineInfo) bool {
	blocks := strings.Split(raw, "- file: ")
	for _, b := range blocks {
		if !strings.Contains(b, "  inode: "+strconv.FormatUint(l.inode, 10)+"\n") {
			continue
		}
		i := strings.Index(b, "  streams:\n")
		if i < 0 {
			continue
		}
		own, beyond := false, false
		for _, ln := range strings.Split(b[i+len("  streams:\n"):], "\n") {
			ln = strings.TrimSpace(ln)
			j := strings.LastIndex(ln, ": ")
			if j < 0 {
				continue
			}
			name := ln[:j]
			off, _ := strconv.ParseInt(ln[j+2:], 10, 64)
			if name == l.stream {
				own = true
			} else if off >= l.endOff {
				beyond = true
			}
		}
		return !own && beyond
	}
	return false
}
