package h3file

// Harness H3w: the real file input plugin (provider + worker) started directly
// with a recording controller on a simulated file that grows in generated
// appends, with seeded short reads. Decides C06 against a reference line
// splitter over the final byte content.

import (
	"bytes"
	"fmt"
	"math/rand/v2"
	"strings"
	"time"

	"github.com/ozontech/file.d/decoder"
	"github.com/ozontech/file.d/fd"
	"github.com/ozontech/file.d/metric"
	"github.com/ozontech/file.d/pipeline"
	"github.com/ozontech/file.d/pipeline/metadata"
	"github.com/ozontech/file.d/plugin/input/file"
	"github.com/ozontech/file.d/zz_verifharness/core"
	"github.com/ozontech/file.d/zz_verifharness/h1pipe"
	"github.com/pierrec/lz4/v4"
	"github.com/prometheus/client_golang/prometheus"
	"verif/simrt"
	"verif/simrt/simos"
)

func init() { core.Register(&HW{}) }

type WCfg struct {
	Sim      simrt.Config    `json:"sim"`
	Chunks   []core.Bin      `json:"chunks"` // successive appends (arbitrary bytes: a chunk may end inside a multi-byte rune)
	Pauses   []time.Duration `json:"pauses"`
	ReadBuf  int             `json:"read_buffer"`
	MaxSize  int             `json:"max_event_size"`
	CutOff   bool            `json:"cut_off"`
	Workers  int             `json:"workers"`
	Watch    bool            `json:"watch_writes"`
	MaintIvl time.Duration   `json:"maintenance_interval"`
	ResumeAt int             `json:"resume_after_line"` // >0: offsets file says the first n lines are committed
	Initial  int             `json:"initial_chunks"`    // chunks already in the file when file.d starts
	// Forward: the recording controller hands every In call on to a real pipeline (raw decoder, same size
	// limit), which is allowed to write into the slice it is given - the worker's own buffers.
	Forward bool `json:"forward_to_pipeline,omitempty"`
	// Other: a second file in the same directory, read by the same workers in between: after appending chunk i of
	// the main file, Other[i] (if any) is appended to it. Its own lines are not checked; it is there because the
	// workers' buffers are reused from one file to the next
	Other map[int]core.Bin `json:"other_file_appends,omitempty"`
	// Lz4: the file is an lz4 frame of the whole content, complete when file.d starts (lz4 files are not
	// appended to). Offsets are positions in the decompressed content. With a resume offset the worker decodes
	// and throws away most of the committed part and hands the rest of it to the pipeline once more (whose
	// input plugin filters it by offset): calls up to the resume offset are therefore not checked
	Lz4 bool `json:"lz4,omitempty"`
}

func lz4Frame(content []byte) []byte {
	var buf bytes.Buffer
	w := lz4.NewWriter(&buf)
	if _, err := w.Write(content); err != nil {
		panic(err)
	}
	if err := w.Close(); err != nil {
		panic(err)
	}
	return buf.Bytes()
}

func (c *WCfg) SimCfg() *simrt.Config { return &c.Sim }

type HW struct{}

func (h *HW) Name() string     { return "h3worker" }
func (h *HW) Props() []string  { return []string{"C06"} }
func (h *HW) NewCfg() core.Cfg { return &WCfg{} }

func (h *HW) Gen(rng *rand.Rand, tier, prop string) core.Cfg {
	c := &WCfg{}
	c.Sim = simrt.Config{PSwitch: core.Pick(rng, 0.01, 0.05, 0.2), StepCost: time.Microsecond, MaxSteps: 1_000_000, Horizon: time.Hour,
		Faults: map[string]float64{}, Boost: map[string]float64{}}
	if core.Chance(rng, 0.6) {
		c.Sim.Faults["disk.shortread"] = core.Pick(rng, 0.1, 0.4)
	}
	if core.Chance(rng, 0.3) {
		c.Sim.Boost["io"] = 4
	}
	c.ReadBuf = core.Pick(rng, 1, 2, 3, 4, 5, 7, 8, 16, 16, 4096)
	switch {
	case core.Chance(rng, 0.5):
		c.MaxSize = 0
	default:
		c.MaxSize = core.Between(rng, 3, 20)
		c.CutOff = core.Chance(rng, 0.5)
	}
	c.Workers = core.Between(rng, 1, 2)
	c.Watch = core.Chance(rng, 0.5)
	c.Forward = core.Chance(rng, 0.3)
	c.MaintIvl = core.DurBetween(rng, 100*time.Millisecond, time.Second)
	// content: lines over a small alphabet with lengths around the buffer size
	alphabet := []string{"a", "b", "é", "a", "b"}
	nl := core.Between(rng, 1, 12)
	if tier == "thorough" {
		nl = core.Between(rng, 1, 40)
	}
	var content strings.Builder
	for i := 0; i < nl; i++ {
		ln := 0
		switch {
		case core.Chance(rng, 0.15):
			ln = 0
		case core.Chance(rng, 0.5):
			ln = core.Between(rng, 1, max(2, c.ReadBuf+2))
			if ln > 40 {
				ln = core.Between(rng, 1, 40)
			}
		default:
			ln = core.Between(rng, 1, 25)
		}
		for j := 0; j < ln; j++ {
			content.WriteString(alphabet[rng.IntN(len(alphabet))])
		}
		content.WriteString("\n")
	}
	if core.Chance(rng, 0.4) { // unterminated tail
		for j := core.Between(rng, 1, 8); j > 0; j-- {
			content.WriteString(alphabet[rng.IntN(len(alphabet))])
		}
	}
	all := content.String()
	// split into appends at arbitrary byte positions
	for len(all) > 0 {
		n := len(all)
		switch {
		case core.Chance(rng, 0.3):
			n = 1
		case core.Chance(rng, 0.7):
			n = core.Between(rng, 1, min(len(all), 12))
		}
		c.Chunks = append(c.Chunks, core.Bin(all[:n]))
		all = all[n:]
		if core.Chance(rng, 0.5) {
			c.Pauses = append(c.Pauses, 0)
		} else {
			c.Pauses = append(c.Pauses, core.DurBetween(rng, time.Millisecond, 2*c.MaintIvl))
		}
	}
	c.Initial = rng.IntN(len(c.Chunks) + 1)
	if core.Chance(rng, 0.3) {
		c.Other = map[int]core.Bin{}
		for i := range c.Chunks {
			if core.Chance(rng, 0.5) {
				c.Other[i] = core.Bin(core.Pick(rng, "zz", "zzzzzzzzzzzz\n", "q\nqq", "yyyyyyyyyyyyyyyyyyyyyyyyyyyyyyyyyyyy", "\n", "w\nwwwwwwwwwwwwwwwwwwwwww\nw"))
			}
		}
	}
	if core.Chance(rng, 0.25) && c.Initial > 0 {
		c.ResumeAt = core.Between(rng, 1, 3)
	}
	if core.Chance(rng, 0.1) {
		c.Lz4 = true
		c.Initial = len(c.Chunks)
		c.Other = nil
		c.ResumeAt = 0
		if core.Chance(rng, 0.7) {
			c.ResumeAt = core.Between(rng, 1, nl)
		}
	}
	return c
}

func (h *HW) Shrink(cc core.Cfg) []core.Cfg {
	c := cc.(*WCfg)
	var out []core.Cfg
	clone := func() *WCfg {
		d := *c
		d.Chunks = append([]core.Bin(nil), c.Chunks...)
		d.Pauses = append([]time.Duration(nil), c.Pauses...)
		return &d
	}
	// merge adjacent chunks
	for i := 0; i+1 < len(c.Chunks); i++ {
		d := clone()
		d.Chunks[i] += d.Chunks[i+1]
		d.Chunks = append(d.Chunks[:i+1], d.Chunks[i+2:]...)
		d.Pauses = append(d.Pauses[:i+1], d.Pauses[i+2:]...)
		if d.Initial > i+1 {
			d.Initial--
		}
		out = append(out, d)
	}
	// drop the last chunk
	if n := len(c.Chunks); n > 1 {
		d := clone()
		d.Chunks = d.Chunks[:n-1]
		d.Pauses = d.Pauses[:n-1]
		if d.Initial > n-1 {
			d.Initial = n - 1
		}
		out = append(out, d)
	}
	if c.ResumeAt > 0 {
		d := clone()
		d.ResumeAt = 0
		out = append(out, d)
		if c.ResumeAt > 1 {
			d := clone()
			d.ResumeAt--
			out = append(out, d)
		}
	}
	if c.Workers > 1 {
		d := clone()
		d.Workers = 1
		out = append(out, d)
	}
	return out
}

type inCall struct {
	off  int64
	data []byte
	src  pipeline.SourceID
}

type recCtl struct {
	calls []inCall
	seq   uint64
	inner *pipeline.Pipeline // forwarding mode
}

func (r *recCtl) In(sourceID pipeline.SourceID, sourceName string, offsets pipeline.Offsets, data []byte, isNewSource bool, meta metadata.MetaData) uint64 {
	r.calls = append(r.calls, inCall{off: pipeline.VerifOffsetsCurrent(offsets), data: append([]byte(nil), data...), src: sourceID})
	r.seq++
	if r.inner != nil {
		r.inner.In(sourceID, sourceName, offsets, data, isNewSource, meta)
	}
	return r.seq
}

// stub plugins of the inner pipeline of the forwarding mode
type fwdInput struct{}

func (fwdInput) Start(pipeline.AnyConfig, *pipeline.InputPluginParams) {}
func (fwdInput) Stop()                                                 {}
func (fwdInput) Commit(*pipeline.Event)                                {}
func (fwdInput) PassEvent(*pipeline.Event) bool                        { return true }

type fwdOutput struct {
	ctl pipeline.OutputPluginController
}

func (f *fwdOutput) Start(_ pipeline.AnyConfig, p *pipeline.OutputPluginParams) { f.ctl = p.Controller }
func (f *fwdOutput) Stop()                                                      {}
func (f *fwdOutput) Out(e *pipeline.Event)                                      { f.ctl.Commit(e) }
func (r *recCtl) UseSpread()                                                    {}
func (r *recCtl) DisableStreams()                                               {}
func (r *recCtl) SuggestDecoder(decoder.Type)                                   {}
func (r *recCtl) IncReadOps()                                                   {}
func (r *recCtl) IncMaxEventSizeExceeded(...string)                             {}

func (h *HW) Run(cc core.Cfg, sim *simrt.Sim) *core.Outcome {
	cfg := cc.(*WCfg)
	o := &core.Outcome{NonTrivial: map[string]bool{}, Probes: map[string]int{}}
	rec := &recCtl{}
	if cfg.Lz4 && !file.VerifTreatedAsLz4("x.lz4") {
		// this machine's MIME tables give .lz4 another type: the plugin would read the frame as text
		o.EndReason = "skipped"
		o.Probes["lz4-not-recognised-on-this-machine"]++
		return o
	}
	var mainSID uint64
	done := false
	var full []byte
	for _, ch := range cfg.Chunks {
		full = append(full, ch...)
	}
	// reference: complete lines and their end offsets
	type refLine struct {
		data []byte
		end  int64
	}
	var ref []refLine
	{
		pos := 0
		for {
			i := bytes.IndexByte(full[pos:], '\n')
			if i < 0 {
				break
			}
			ref = append(ref, refLine{data: full[pos : pos+i+1], end: int64(pos + i + 1)})
			pos += i + 1
		}
	}
	resume := 0
	if cfg.ResumeAt > 0 {
		// only lines that are already in the file when file.d starts can have been committed
		initial := 0
		for i := 0; i < cfg.Initial && i < len(cfg.Chunks); i++ {
			initial += len(cfg.Chunks[i])
		}
		for resume < cfg.ResumeAt && resume < len(ref) && ref[resume].end <= int64(initial) {
			resume++
		}
	}
	defer file.VerifForgetAll() // process-global registries of the plugin package (see overlay)
	reason := sim.Run(func() {
		fs := simos.NewFS()
		fs.MkdirAllDirect("/data/logs")
		fs.MkdirAllDirect("/data/state")
		pipeSeq++
		mnt := fmt.Sprintf("/mnt%d", pipeSeq)
		fs.Alias(mnt, "/data")
		path := "/data/logs/x.log"
		var initial []byte
		for i := 0; i < cfg.Initial && i < len(cfg.Chunks); i++ {
			initial = append(initial, cfg.Chunks[i]...)
		}
		if cfg.Lz4 {
			path = "/data/logs/x.lz4"
			initial = lz4Frame(full)
		}
		fs.WriteFileDirect(path, initial)
		mainSID = file.VerifSourceID(fs.Ino(path))
		if resume > 0 {
			ino := fs.Ino(path)
			// the source id is derived from the inode exactly as the plugin does it
			sid := file.VerifSourceID(ino)
			fs.WriteFileDirect("/data/state/offsets.yaml", []byte(fmt.Sprintf("- file: %s\n  inode: %d\n  source_id: %d\n  streams:\n    not_set: %d\n", mnt+"/logs/"+path[len("/data/logs/"):], ino, sid, ref[resume-1].end)))
		}
		simrt.GoGroup("filed", func() {
			static, err := fd.DefaultPluginRegistry.Get(pipeline.PluginKindInput, "file")
			if err != nil {
				panic(err)
			}
			js := fmt.Sprintf(`{"watching_dir":%q,"offsets_file":%q,"filename_pattern":"*","persistence_mode":"async","async_interval":"1s","maintenance_interval":%q,"read_buffer_size":%d,"workers_count":"%d","should_watch_file_changes":%v,"report_interval":"1h"}`,
				mnt+"/logs", mnt+"/state/offsets.yaml", cfg.MaintIvl.String(), cfg.ReadBuf, cfg.Workers, cfg.Watch)
			conf, err := pipeline.GetConfig(static, []byte(js), map[string]int{"gomaxprocs": 1, "capacity": 16})
			if err != nil {
				panic(fmt.Sprintf("file plugin config: %v", err))
			}
			plugin, _ := static.Factory()
			name := fmt.Sprintf("h3w_%d", pipeSeq)
			settings := &pipeline.Settings{MaxEventSize: cfg.MaxSize, CutOffEventByLimit: cfg.CutOff, AvgEventSize: 128, StreamField: "stream", Decoder: "json"}
			if cfg.Forward {
				inner := &pipeline.Settings{
					Capacity: 16, MaintenanceInterval: 5 * time.Second, EventTimeout: time.Second, MaxEventSize: cfg.MaxSize, CutOffEventByLimit: cfg.CutOff,
					Antispam:     pipeline.AntispamSettings{Threshold: -1, MaintenanceInterval: 5 * time.Second},
					AvgEventSize: 128, StreamField: "stream", Decoder: "raw", Pool: pipeline.PoolTypeLowMem, MetaCacheSize: 16,
					Metric: &pipeline.MetricSettings{HoldDuration: time.Minute},
				}
				ip := pipeline.New(name+"_in", inner, prometheus.NewRegistry(), h1pipe.QuietLogger())
				ip.SetInput(&pipeline.InputPluginInfo{PluginStaticInfo: &pipeline.PluginStaticInfo{Type: "fwdin"}, PluginRuntimeInfo: &pipeline.PluginRuntimeInfo{Plugin: fwdInput{}}})
				ip.SetOutput(&pipeline.OutputPluginInfo{PluginStaticInfo: &pipeline.PluginStaticInfo{Type: "fwdout"}, PluginRuntimeInfo: &pipeline.PluginRuntimeInfo{Plugin: &fwdOutput{}}})
				ip.Start()
				rec.inner = ip
			}
			plugin.(pipeline.InputPlugin).Start(conf, &pipeline.InputPluginParams{
				PluginDefaultParams: pipeline.PluginDefaultParams{PipelineName: name, PipelineSettings: settings, MetricCtl: metric.NewCtl(name, prometheus.NewRegistry(), 0, 0)},
				Controller:          rec,
				Logger:              h1pipe.QuietLogger().Sugar(),
			})
		})
		for i := cfg.Initial; i < len(cfg.Chunks) && !cfg.Lz4; i++ {
			if cfg.Pauses[i] > 0 {
				simrt.Sleep(cfg.Pauses[i])
			} else {
				simrt.Point()
			}
			fs.AppendDirect(path, []byte(cfg.Chunks[i]))
			if ob, ok := cfg.Other[i]; ok {
				simrt.Point()
				fs.AppendDirect("/data/logs/y-other.log", []byte(ob))
			}
		}
		// everything readable must have been read by now + a few maintenance rounds
		simrt.Sleep(5*cfg.MaintIvl + 2*time.Second)
		if cfg.Forward {
			// a reader parked on the full event pool of the inner pipeline may have to wait for the pool's own
			// wake-up round (seconds): give it several of them
			simrt.Sleep(30 * time.Second)
		}
		done = true
		simrt.Stop("done")
	})
	o.EndReason = reason
	if reason == "died" {
		o.Violate("C06", "died", "file input died: %s", sim.Died())
		return o
	}
	if !done {
		o.Inconclusive = "ended by " + reason
		return o
	}
	// expected In calls of one pass starting at line index `from`
	type exp struct {
		data   []byte
		end    int64
		prefix bool // cut-off: only the first MaxSize bytes are fixed
	}
	wantFrom := func(from int) []exp {
		var want []exp
		for i := from; i < len(ref); i++ {
			l := ref[i]
			if cfg.MaxSize > 0 && len(l.data) > cfg.MaxSize {
				if !cfg.CutOff {
					continue // skipped, neighbours and later offsets unaffected
				}
				want = append(want, exp{data: l.data[:cfg.MaxSize], end: l.end, prefix: true})
				continue
			}
			want = append(want, exp{data: l.data, end: l.end})
		}
		return want
	}
	// only the main file is checked: drop the calls of the other one
	if len(cfg.Other) > 0 && mainSID != 0 {
		var mine []inCall
		for _, c := range rec.calls {
			if uint64(c.src) == mainSID {
				mine = append(mine, c)
			}
		}
		rec.calls = mine
	}
	if cfg.Lz4 && resume > 0 {
		// the committed part that is handed over again (from somewhere inside a line): the input plugin's business
		var rest []inCall
		for i, c := range rec.calls {
			if c.off > ref[resume-1].end {
				rest = rec.calls[i:]
				break
			}
		}
		o.Probes["lz4-calls-below-the-resume-offset"] += len(rec.calls) - len(rest)
		rec.calls = rest
	}
	if cfg.Lz4 {
		o.Probes["lz4-runs"]++
	}
	describe := func() string {
		var sb strings.Builder
		fmt.Fprintf(&sb, "content %q appended as %q (initial %d chunks, lz4 %v), read buffer %d, max_event_size %d cut_off %v, resume after line %d; In calls:", full, cfg.Chunks, cfg.Initial, cfg.Lz4, cfg.ReadBuf, cfg.MaxSize, cfg.CutOff, resume)
		for _, c := range rec.calls {
			fmt.Fprintf(&sb, " (%d,%q)", c.off, c.data)
		}
		return sb.String()
	}
	// split the calls into passes: a pass ends where the offset does not grow
	var passes [][]inCall
	for i, c := range rec.calls {
		if i == 0 || c.off <= rec.calls[i-1].off {
			passes = append(passes, nil)
		}
		passes[len(passes)-1] = append(passes[len(passes)-1], c)
	}
	if len(passes) == 0 {
		passes = [][]inCall{nil}
	}
	for pi, pass := range passes {
		want := wantFrom(0)
		if pi == 0 {
			want = wantFrom(resume)
		}
		last := pi == len(passes)-1
		n := min(len(want), len(pass))
		for i := 0; i < n; i++ {
			w, g := want[i], pass[i]
			if g.off != w.end {
				if g.off > w.end && i > 0 {
					o.Violate("C06", "missing-line", "pass %d: In call #%d has offset %d but the next complete line ends at byte %d: a line was skipped or an offset is wrong; %s", pi, i, g.off, w.end, describe())
				} else {
					o.Violate("C06", "wrong-offset", "pass %d: In call #%d has offset %d, the line ends at byte %d; %s", pi, i, g.off, w.end, describe())
				}
				return o
			}
			if w.prefix {
				if len(g.data) < len(w.data) || !bytes.Equal(g.data[:len(w.data)], w.data) || g.data[len(g.data)-1] != '\n' {
					o.Violate("C06", "wrong-cut-line", "pass %d: In call #%d data %q does not start with the first %d bytes %q of the over-size line (or lost its newline); %s", pi, i, g.data, cfg.MaxSize, w.data, describe())
					return o
				}
			} else if !bytes.Equal(g.data, w.data) {
				o.Violate("C06", "wrong-line-bytes", "pass %d: In call #%d data %q, expected line %q; %s", pi, i, g.data, w.data, describe())
				return o
			}
		}
		if len(pass) > len(want) {
			o.Violate("C06", "extra-line", "pass %d: %d In calls, %d complete lines expected; first extra (%d,%q); %s", pi, len(pass), len(want), pass[n].off, pass[n].data, describe())
			return o
		}
		if last && len(pass) < len(want) {
			o.Violate("C06", "missing-line", "%d In calls in the last pass, %d complete lines expected; first missing ends at %d: %q; %s", len(pass), len(want), want[n].end, want[n].data, describe())
			return o
		}
	}
	if len(passes) > 1 {
		o.Violate("C06", "reread-without-truncation", "the file was never truncated, yet it was read in %d passes (each pass correct); %s", len(passes), describe())
	}
	o.NonTrivial["C06"] = len(ref) > 0 && (len(cfg.Chunks) > 1 || sim.Faults()["disk.shortread"] > 0)
	if cfg.Lz4 {
		o.NonTrivial["C06"] = len(ref) > 0
	}
	o.Summary = map[string]any{"bytes": len(full), "lines": len(ref), "appends": len(cfg.Chunks), "in_calls": len(rec.calls), "read_buffer": cfg.ReadBuf}
	return o
}
