// Package hpool is harness P: the two event pool implementations driven
// directly (through the add-only overlay wrapper) by several getter/returner
// goroutines at atomic-operation granularity; the recorded history is checked
// with porcupine against the sequential specification of a bounded pool.
// Part of C05 (and, through its liveness verdict, of C04's "a reader blocked on
// a full pool resumes once capacity is free").
package hpool

import (
	"fmt"
	"math/rand/v2"
	"time"

	"github.com/anishathalye/porcupine"
	"github.com/ozontech/file.d/pipeline"
	"github.com/ozontech/file.d/zz_verifharness/core"
	_ "github.com/ozontech/file.d/zz_verifharness/h1pipe"
	"verif/simrt"
)

func init() { core.Register(&H{}) }

type Op struct {
	Get   bool          `json:"get"`  // get (true) or give one held event back (false)
	Size  int           `json:"size"` // size class for get
	Pause time.Duration `json:"pause,omitempty"`
}

type Cfg struct {
	Sim      simrt.Config `json:"sim"`
	Kind     string       `json:"pool"`
	Capacity int          `json:"capacity"`
	Workers  [][]Op       `json:"workers"`
}

func (c *Cfg) SimCfg() *simrt.Config { return &c.Sim }

type H struct{}

func (h *H) Name() string     { return "hpool" }
func (h *H) Props() []string  { return []string{"C04", "C05"} }
func (h *H) NewCfg() core.Cfg { return &Cfg{} }

// Weight: C05 is shared with the outputs harness, which takes one slot in five.
func (h *H) Weight(prop string) int {
	if prop == "C05" {
		return 2
	}
	return 1
}

func (h *H) Gen(rng *rand.Rand, tier, prop string) core.Cfg {
	c := &Cfg{}
	c.Sim = simrt.Config{PSwitch: core.Pick(rng, 0.05, 0.2, 0.5), StepCost: time.Microsecond, MaxSteps: 400_000, Horizon: 10 * time.Minute,
		Boost: map[string]float64{"atomic": core.Pick(rng, 1.0, 2.0), "cond": core.Pick(rng, 1.0, 3.0)}, PoolMiss: core.Pick(rng, 0, 0, 0.3)}
	c.Kind = core.Pick(rng, "std", "low_memory")
	c.Capacity = core.Between(rng, 1, 4)
	nw := core.Between(rng, 2, 4)
	total := 0
	for w := 0; w < nw; w++ {
		n := core.Between(rng, 2, 12)
		var ops []Op
		held := 0
		for i := 0; i < n && total < 36; i++ {
			// a worker never asks for a second event while it holds one: otherwise the workload itself
			// can deadlock (all capacity held by workers that wait for more)
			op := Op{Get: held == 0, Size: core.Pick(rng, 0, 1, 7, 100, 5000)}
			if op.Get {
				held++
			} else {
				held--
			}
			if core.Chance(rng, 0.2) {
				op.Pause = core.DurBetween(rng, time.Microsecond, 10*time.Millisecond)
			}
			ops = append(ops, op)
			total++
		}
		// every worker gives everything back in the end
		for ; held > 0; held-- {
			ops = append(ops, Op{})
			total++
		}
		c.Workers = append(c.Workers, ops)
	}
	return c
}

func (h *H) Shrink(cc core.Cfg) []core.Cfg {
	c := cc.(*Cfg)
	var out []core.Cfg
	for i := range c.Workers {
		if len(c.Workers) > 2 {
			d := *c
			d.Workers = append(append([][]Op(nil), c.Workers[:i]...), c.Workers[i+1:]...)
			out = append(out, &d)
		}
	}
	return out
}

type poolIn struct {
	get bool
	obj int // back: object id
}
type poolOut struct {
	obj int // get: object id
}

func model(capacity int) porcupine.Model {
	type state = string // sorted set of ids as string key, kept tiny
	return porcupine.Model{
		Init: func() interface{} { return map[int]bool{} },
		Step: func(st, in, out interface{}) (bool, interface{}) {
			s := st.(map[int]bool)
			i := in.(poolIn)
			ns := make(map[int]bool, len(s)+1)
			for k := range s {
				ns[k] = true
			}
			if i.get {
				o := out.(poolOut)
				if len(s) >= capacity || s[o.obj] {
					return false, st
				}
				ns[o.obj] = true
				return true, ns
			}
			if !s[i.obj] {
				return false, st
			}
			delete(ns, i.obj)
			return true, ns
		},
		Equal: func(a, b interface{}) bool {
			x, y := a.(map[int]bool), b.(map[int]bool)
			if len(x) != len(y) {
				return false
			}
			for k := range x {
				if !y[k] {
					return false
				}
			}
			return true
		},
		DescribeOperation: func(in, out interface{}) string {
			i := in.(poolIn)
			if i.get {
				return fmt.Sprintf("get() -> obj%d", out.(poolOut).obj)
			}
			return fmt.Sprintf("back(obj%d)", i.obj)
		},
	}
}

func (h *H) Run(cc core.Cfg, sim *simrt.Sim) *core.Outcome {
	cfg := cc.(*Cfg)
	o := &core.Outcome{NonTrivial: map[string]bool{}, Probes: map[string]int{}}
	var ops []porcupine.Operation
	ids := map[*pipeline.Event]int{}
	finished := 0
	blockedAtFull := 0
	held := 0
	maxHeld := 0
	verdict := false
	reason := sim.Run(func() {
		pool := pipeline.VerifNewPool(pipeline.PoolType(cfg.Kind), cfg.Capacity, 64)
		for w, wops := range cfg.Workers {
			w, wops := w, wops
			simrt.Go(fmt.Sprintf("w%d", w), func() {
				var mine []*pipeline.Event
				for _, op := range wops {
					if op.Pause > 0 {
						simrt.Sleep(op.Pause)
					}
					if op.Get {
						call := int64(simrt.Steps())
						if held >= cfg.Capacity {
							blockedAtFull++
						}
						e := pool.Get(op.Size)
						id, ok := ids[e]
						if !ok {
							id = len(ids) + 1
							ids[e] = id
						}
						held++
						if held > maxHeld {
							maxHeld = held
						}
						if held > cfg.Capacity {
							o.Violate("C05", "pool-over-capacity", "%d events are out of the %s pool at once, capacity %d", held, cfg.Kind, cfg.Capacity)
						}
						for _, m := range mine {
							if m == e {
								o.Violate("C05", "pool-double-hand-out", "the %s pool handed out an event object its caller still holds", cfg.Kind)
							}
						}
						simrt.Point()
						ops = append(ops, porcupine.Operation{ClientId: w, Input: poolIn{get: true}, Call: call, Output: poolOut{obj: id}, Return: int64(simrt.Steps())})
						mine = append(mine, e)
					} else if len(mine) > 0 {
						e := mine[0]
						mine = mine[1:]
						call := int64(simrt.Steps())
						held--
						pool.Back(e)
						simrt.Point()
						ops = append(ops, porcupine.Operation{ClientId: w, Input: poolIn{obj: ids[e]}, Call: call, Output: poolOut{}, Return: int64(simrt.Steps())})
					}
				}
				finished++
			})
		}
		// liveness: everybody finishes (every worker returns what it took, so capacity keeps coming back)
		deadline := simrt.SimNow() + 5*time.Minute
		for finished < len(cfg.Workers) && simrt.SimNow() < deadline {
			simrt.Sleep(100 * time.Millisecond)
		}
		if finished < len(cfg.Workers) {
			o.Violate("C04", "pool-getter-parked/"+cfg.Kind, "%d of %d workers are still inside get() five simulated minutes after capacity became free (in use %d/%d, waiters %d)", len(cfg.Workers)-finished, len(cfg.Workers), pool.InUse(), cfg.Capacity, pool.Waiters())
			o.Violate("C05", "pool-getter-parked/"+cfg.Kind, "%d of %d workers are still inside get() five simulated minutes after capacity became free (in use %d/%d, waiters %d)", len(cfg.Workers)-finished, len(cfg.Workers), pool.InUse(), cfg.Capacity, pool.Waiters())
		} else {
			if iu := pool.InUse(); iu != 0 {
				o.Violate("C05", "pool-leak", "everything was given back but the %s pool reports %d in use", cfg.Kind, iu)
			}
			if wt := pool.Waiters(); wt != 0 {
				o.Violate("C05", "pool-waiters-at-idle", "idle %s pool reports %d waiters", cfg.Kind, wt)
			}
		}
		pool.Stop()
		verdict = true
		simrt.Stop("done")
	})
	o.EndReason = reason
	if reason == "died" {
		o.Violate("C05", "died", "pool died: %s", sim.Died())
		return o
	}
	if !verdict {
		o.Inconclusive = "ended by " + reason
		return o
	}
	if len(o.Violations) == 0 && len(ops) > 0 {
		res := porcupine.CheckOperationsTimeout(model(cfg.Capacity), ops, 20*time.Second)
		switch res {
		case porcupine.Illegal:
			o.Violate("C05", "pool-history-not-linearizable", "the recorded get/back history of the %s pool (capacity %d, %d operations) is not linearizable against a bounded pool: %v", cfg.Kind, cfg.Capacity, len(ops), describe(ops))
		case porcupine.Unknown:
			o.Probes["porcupine-timeout"]++
		}
	}
	o.NonTrivial["C05"] = blockedAtFull > 0 || maxHeld >= cfg.Capacity
	o.NonTrivial["C04"] = blockedAtFull > 0
	o.Probes["getter-blocked-at-capacity"] += blockedAtFull
	o.Summary = map[string]any{"pool": cfg.Kind, "capacity": cfg.Capacity, "operations": len(ops), "max_held": maxHeld}
	return o
}

func describe(ops []porcupine.Operation) []string {
	var out []string
	for _, op := range ops {
		i := op.Input.(poolIn)
		if i.get {
			out = append(out, fmt.Sprintf("c%d get->obj%d [%d,%d]", op.ClientId, op.Output.(poolOut).obj, op.Call, op.Return))
		} else {
			out = append(out, fmt.Sprintf("c%d back(obj%d) [%d,%d]", op.ClientId, i.obj, op.Call, op.Return))
		}
	}
	return out
}
