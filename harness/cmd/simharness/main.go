// simharness: worker binary of the simulation checks. It is built inside the
// scratch (rewritten) copy of file.d.
//
//	simharness run    -prop C08 -tier quick -seed 1 -start 0 -stride 16 -budget 30s -out DIR -result FILE
//	simharness replay -file replay.json [-trace]
//	simharness list
package main

import (
	"encoding/binary"
	"encoding/json"
	"flag"
	"fmt"
	"math/rand/v2"
	"os"
	"path/filepath"
	"runtime"
	"runtime/pprof"
	"sort"
	"strconv"
	"strings"
	"sync/atomic"
	"time"

	_ "github.com/ozontech/file.d/zz_verifharness/all"
	"github.com/ozontech/file.d/zz_verifharness/core"
	"verif/simrt"
)

type workerResult struct {
	Prop            string            `json:"property"`
	Runs            int               `json:"runs"`
	NonTrivial      int               `json:"nontrivial"`
	Inconclusive    int               `json:"inconclusive"`
	InconclusiveWhy map[string]int    `json:"inconclusive_why,omitempty"`
	Steps           int64             `json:"steps"`
	SimTimeNs       int64             `json:"sim_time_ns"`
	Faults          map[string]int    `json:"faults"`
	Probes          map[string]int    `json:"probes"`
	EndReasons      map[string]int    `json:"end_reasons"`
	Known           map[string]int    `json:"known"`
	KnownExample    map[string]string `json:"known_example"`
	Harnesses       map[string]int    `json:"harnesses"`
	Samples         []any             `json:"samples"`
	HashFile        string            `json:"hash_file"`
	Violation       *core.Replay      `json:"violation,omitempty"`
	ViolationFile   string            `json:"violation_file,omitempty"`
	MinimiseTries   int               `json:"minimise_tries,omitempty"`
	WallS           float64           `json:"wall_s"`
	FirstIndex      int               `json:"first_index"`
	LastIndex       int               `json:"last_index"`
	Spin            bool              `json:"spin,omitempty"`       // the worker stopped because a run span without scheduling steps
	SpinKnown       bool              `json:"spin_known,omitempty"` // ... and the signature is a known finding: restart at NextIndex
	NextIndex       int               `json:"next_index,omitempty"`
}

var lastProgress atomic.Int64

func watchdog(limit time.Duration) {
	lastProgress.Store(time.Now().UnixNano())
	go func() {
		tick := 0
		var seenProgress int64
		ticksSince := 0
		for {
			time.Sleep(time.Second)
			var ms runtime.MemStats
			if tick++; tick%5 == 0 {
				runtime.ReadMemStats(&ms)
				if ms.HeapInuse > 3<<30 {
					fmt.Fprintf(os.Stderr, "simharness: watchdog: the worker holds %d MiB of heap (a leak in the machinery or a run-away allocation); giving up\n", ms.HeapInuse>>20)
					os.Exit(3)
				}
			}
			if lp := lastProgress.Load(); lp != seenProgress {
				seenProgress, ticksSince = lp, 0
			}
			ticksSince++
			if time.Since(time.Unix(0, lastProgress.Load())) > limit && time.Duration(ticksSince)*time.Second > limit {
				fmt.Fprintf(os.Stderr, "simharness: watchdog: a single run exceeded %v of wall time\n", limit)
				os.Exit(3)
			}
		}
	}()
}

// ---- spin watch ----
//
// A goroutine of the system under test that loops without ever reaching a
// scheduling point (no sync, channel, atomic, clock or I/O operation) cannot be
// pre-empted or killed by the simulation. The watch recognises it by wall
// clock: a simulation is running and its step counter has not moved for
// spinLimit. The verdict is still replayable: the run is deterministic up to
// the step at which it stops moving, so a replay must stop moving at the same
// step with the same innermost file.d function on the stack.

var spinLimit = func() time.Duration {
	if v := os.Getenv("VERIF_SPIN_S"); v != "" {
		if n, err := strconv.Atoi(v); err == nil && n > 0 {
			return time.Duration(n) * time.Second
		}
	}
	return 15 * time.Second
}()

type spinInfo struct {
	Signature string
	Detail    string
	Steps     int
	Info      *core.ExecInfo
}

func spinWatch(onSpin func(spinInfo)) {
	go func() {
		last, _ := simrt.WallProgress()
		since := time.Now()
		polls := 0 // consecutive polls without progress: a frozen process (SIGSTOP, VM snapshot) makes no polls either
		const every = 250 * time.Millisecond
		for {
			time.Sleep(every)
			cur, sim := simrt.WallProgress()
			if sim == nil || cur != last {
				last, since, polls = cur, time.Now(), 0
				continue
			}
			polls++
			if time.Since(since) < spinLimit || time.Duration(polls)*every < spinLimit {
				continue
			}
			info := core.Current.Load()
			if info == nil || info.Sim != sim {
				last, since, polls = cur, time.Now(), 0
				continue
			}
			buf := make([]byte, 1<<20)
			buf = buf[:runtime.Stack(buf, true)]
			fn, stack := spinningFrame(string(buf))
			if fn == "" {
				// nothing of the system under test is on a running stack: not a spin of file.d (harness or runtime trouble)
				fmt.Fprintf(os.Stderr, "simharness: no scheduling step for %v and no running goroutine inside file.d:\n%s\n", spinLimit, buf)
				cj, _ := json.Marshal(info.Cfg)
				os.WriteFile(fmt.Sprintf("/var/tmp/verif-stall-%d.txt", os.Getpid()), []byte(fmt.Sprintf("harness %s step %d\nconfig %s\n\n%s", info.H.Name(), sim.Steps(), cj, buf)), 0o644)
				os.Exit(3)
			}
			onSpin(spinInfo{Signature: "spin/" + fn, Steps: sim.Steps(), Info: info,
				Detail: fmt.Sprintf("no scheduling step for %v of wall time after step %d: a goroutine loops inside %s without reaching any synchronisation, clock or I/O operation\n%s", spinLimit, sim.Steps(), fn, stack)})
			os.Exit(3) // onSpin exits itself
		}
	}()
}

// spinningFrame finds, among the goroutines that are on a CPU or runnable, the
// innermost frame that belongs to file.d or one of its dependencies but not to
// the harness or the simulation runtime, in a simulated goroutine.
func spinningFrame(dump string) (fn string, stack string) {
	for _, g := range strings.Split(dump, "\n\n") {
		lines := strings.Split(g, "\n")
		if len(lines) < 2 || !(strings.Contains(lines[0], "[running") || strings.Contains(lines[0], "[runnable")) {
			continue
		}
		if !strings.Contains(g, "simrt.(*Sim).start") {
			continue
		}
		inner := ""
		for _, l := range lines[1:] {
			if strings.HasPrefix(l, "\t") || l == "" {
				continue
			}
			name := l
			if i := strings.LastIndex(name, "("); i > 0 {
				name = name[:i]
			}
			if strings.HasPrefix(name, "github.com/ozontech/file.d/") && !strings.Contains(name, "zz_verifharness") {
				inner = strings.TrimPrefix(name, "github.com/ozontech/file.d/")
				break
			}
			if strings.Contains(name, "zz_verifharness") || strings.HasPrefix(name, "verif/simrt") {
				break // the innermost non-library frame is harness or runtime code
			}
		}
		if inner != "" {
			if len(lines) > 24 {
				lines = lines[:24]
			}
			return inner, strings.Join(lines, "\n")
		}
	}
	return "", ""
}

func main() {
	if len(os.Args) < 2 {
		fmt.Fprintln(os.Stderr, "usage: simharness run|replay|list ...")
		os.Exit(2)
	}
	switch os.Args[1] {
	case "run":
		cmdRun(os.Args[2:])
	case "replay":
		cmdReplay(os.Args[2:])
	case "list":
		for _, p := range []string{"C01", "C02", "C03", "C04", "C05", "C06", "C07", "C08", "C09", "C10", "C11", "C15", "C16", "C19", "C20"} {
			for _, h := range core.HarnessesFor(p) {
				fmt.Println(p, h.Name())
			}
		}
	default:
		fmt.Fprintln(os.Stderr, "unknown command")
		os.Exit(2)
	}
}

var dumpCfg = os.Getenv("VERIF_DUMPCFG") != ""

func cmdRun(args []string) {
	fs := flag.NewFlagSet("run", flag.ExitOnError)
	prop := fs.String("prop", "", "property id")
	tier := fs.String("tier", "quick", "quick|thorough")
	seed := fs.Uint64("seed", 1, "base seed")
	start := fs.Int("start", 0, "first run index")
	stride := fs.Int("stride", 1, "index stride")
	budget := fs.Duration("budget", 20*time.Second, "wall-clock budget")
	maxRuns := fs.Int("maxruns", 0, "stop after this many runs (0 = budget only)")
	out := fs.String("out", ".", "directory for replay candidates and hash files")
	result := fs.String("result", "", "result json path")
	knownPath := fs.String("known", "", "known findings file")
	minBudget := fs.Duration("minimise", 20*time.Second, "minimisation budget")
	only := fs.String("harness", "", "restrict to one harness")
	printHash := fs.Bool("hashes", false, "print index and trace hash of every run (determinism self-test)")
	fs.Parse(args)

	hs := core.HarnessesFor(*prop)
	if *only != "" {
		hs = nil
		if h := core.Get(*only); h != nil {
			hs = []core.Harness{h}
		}
	}
	if len(hs) == 0 {
		fmt.Fprintf(os.Stderr, "no harness for property %s\n", *prop)
		os.Exit(2)
	}
	known, err := core.LoadKnown(*knownPath)
	if err != nil {
		fmt.Fprintln(os.Stderr, err)
		os.Exit(2)
	}
	watchdog(5 * time.Minute)
	res := &workerResult{Prop: *prop, Faults: map[string]int{}, Probes: map[string]int{}, EndReasons: map[string]int{}, Known: map[string]int{},
		KnownExample: map[string]string{}, Harnesses: map[string]int{}, InconclusiveWhy: map[string]int{}, FirstIndex: *start}
	hashes := map[uint64]struct{}{}
	t0 := time.Now()
	n := 0
	curIdx := *start
	spinWatch(func(sp spinInfo) {
		// written from the watch goroutine while the spinning goroutine keeps its CPU; the main loop is blocked in Exec
		cfgJSON, _ := json.Marshal(sp.Info.Cfg)
		rp := &core.Replay{Property: *prop, Harness: sp.Info.H.Name(), Tier: *tier, Seed: *seed, Index: curIdx, Signature: sp.Signature,
			Cfg: cfgJSON, Script: sp.Info.Sim.Decisions(), Detail: sp.Detail, Hash: fmt.Sprintf("spin@%d", sp.Steps), Steps: sp.Steps,
			OrigDecisions: len(sp.Info.Sim.Decisions()),
			Note:          "spin: not minimised (a goroutine that never reaches a scheduling point cannot be stopped in-process)"}
		res.Spin = true
		res.NextIndex = curIdx + *stride
		res.WallS = time.Since(t0).Seconds()
		if k := core.MatchKnown(known, core.Violation{Prop: *prop, Signature: sp.Signature, Detail: sp.Detail}); k != nil {
			res.Known[k.Signature]++
			if _, ok := res.KnownExample[k.Signature]; !ok {
				res.KnownExample[k.Signature] = fmt.Sprintf("run_index=%d %s", curIdx, sp.Signature)
			}
			res.SpinKnown = true
		} else {
			os.MkdirAll(*out, 0o755)
			path := filepath.Join(*out, fmt.Sprintf("%s-%s-seed%d-run%d.json", *prop, sp.Info.H.Name(), *seed, curIdx))
			if err := core.WriteReplay(path, rp); err != nil {
				fmt.Fprintln(os.Stderr, err)
				os.Exit(2)
			}
			res.Violation = rp
			res.ViolationFile = path
		}
		if *result != "" {
			b, _ := json.Marshal(res)
			os.WriteFile(*result, b, 0o644)
		}
		os.Exit(4)
	})
	for idx := *start; ; idx += *stride {
		if time.Since(t0) > *budget || (*maxRuns > 0 && n >= *maxRuns) {
			break
		}
		lastProgress.Store(time.Now().UnixNano())
		curIdx = idx
		h := hs[(idx / *stride)%len(hs)]
		if len(hs) > 1 {
			h = hs[idx%len(hs)]
		}
		rs := core.RunSeed(*seed, idx)
		rng := rand.New(rand.NewPCG(rs, 0x1234567))
		cfg := h.Gen(rng, *tier, *prop)
		cfg.SimCfg().Seed = rs
		if dumpCfg {
			cj, _ := json.Marshal(cfg)
			fmt.Printf("CFG %d %s %s\n", idx, h.Name(), cj)
		}
		o := core.Exec(h, cfg, nil, false, false)
		n++
		res.LastIndex = idx
		res.Runs++
		res.Harnesses[h.Name()]++
		res.Steps += int64(o.Steps)
		res.SimTimeNs += int64(o.SimTime)
		res.EndReasons[o.EndReason]++
		for k, v := range o.Faults {
			res.Faults[k] += v
		}
		for k, v := range o.Probes {
			res.Probes[k] += v
		}
		if *printHash {
			fmt.Printf("H %d %016x %d %s\n", idx, o.Hash, o.Steps, o.EndReason)
		}
		if o.Inconclusive != "" {
			res.Inconclusive++
			res.InconclusiveWhy[o.Inconclusive]++
			continue
		}
		if o.NonTrivial[*prop] {
			res.NonTrivial++
			hashes[o.Hash] = struct{}{}
		}
		if len(res.Samples) < 2 && o.Summary != nil && (o.NonTrivial[*prop] || idx == *start) {
			res.Samples = append(res.Samples, map[string]any{"run_index": idx, "harness": h.Name(), "config": cfg, "summary": o.Summary,
				"steps": o.Steps, "sim_time": o.SimTime.String(), "faults": o.Faults})
		}
		var fresh *core.Violation
		for _, v := range o.For(*prop) {
			if k := core.MatchKnown(known, v); k != nil {
				res.Known[k.Signature]++
				if _, ok := res.KnownExample[k.Signature]; !ok {
					res.KnownExample[k.Signature] = fmt.Sprintf("run_index=%d %s: %s", idx, v.Signature, firstLine(v.Detail))
				}
				continue
			}
			vv := v
			fresh = &vv
			break
		}
		if fresh == nil {
			continue
		}
		// a violation that is not a known finding: minimise and write the replay file
		cfgJSON, _ := json.Marshal(cfg)
		rp := &core.Replay{Property: *prop, Harness: h.Name(), Tier: *tier, Seed: *seed, Index: idx, Signature: fresh.Signature,
			OrigDecisions: len(o.Decisions)}
		mcfg, mscript, mo, tries := core.Minimise(h, cfg, o.Decisions, *prop, fresh.Signature, *minBudget)
		res.MinimiseTries = tries
		if mo == nil {
			// the full script did not reproduce: nondeterminism in the machinery, not a finding
			rp.Note = "full decision script did not reproduce in-process"
			rp.Cfg = cfgJSON
			rp.Script = o.Decisions
			rp.Detail = fresh.Detail
			rp.Hash = fmt.Sprintf("%016x", o.Hash)
		} else {
			cfgJSON, _ = json.Marshal(mcfg)
			rp.Cfg = cfgJSON
			rp.Script = mscript
			for _, v := range mo.For(*prop) {
				if v.Signature == fresh.Signature {
					rp.Detail = v.Detail
				}
			}
			rp.Hash = fmt.Sprintf("%016x", mo.Hash)
			rp.Steps = mo.Steps
			rp.SimTime = mo.SimTime.String()
		}
		os.MkdirAll(*out, 0o755)
		path := filepath.Join(*out, fmt.Sprintf("%s-%s-seed%d-run%d.json", *prop, h.Name(), *seed, idx))
		if err := core.WriteReplay(path, rp); err != nil {
			fmt.Fprintln(os.Stderr, err)
			os.Exit(2)
		}
		res.Violation = rp
		res.ViolationFile = path
		break
	}
	res.WallS = time.Since(t0).Seconds()
	if hp := os.Getenv("VERIF_HEAPPROF"); hp != "" {
		runtime.GC()
		if f, err := os.Create(hp); err == nil {
			pprof.WriteHeapProfile(f)
			f.Close()
		}
		fmt.Fprintf(os.Stderr, "goroutines at exit: %d\n", runtime.NumGoroutine())
	}
	// hash file
	if *result != "" {
		hf := *result + ".hashes"
		hs := make([]uint64, 0, len(hashes))
		for h := range hashes {
			hs = append(hs, h)
		}
		sort.Slice(hs, func(i, j int) bool { return hs[i] < hs[j] })
		buf := make([]byte, 8*len(hs))
		for i, h := range hs {
			binary.LittleEndian.PutUint64(buf[i*8:], h)
		}
		os.WriteFile(hf, buf, 0o644)
		res.HashFile = hf
		b, _ := json.Marshal(res)
		os.WriteFile(*result, b, 0o644)
	} else {
		b, _ := json.MarshalIndent(res, "", " ")
		fmt.Println(string(b))
	}
	if res.Violation != nil {
		os.Exit(1)
	}
}

func firstLine(s string) string {
	for i := 0; i < len(s); i++ {
		if s[i] == '\n' {
			return s[:i]
		}
	}
	return s
}

func cmdReplay(args []string) {
	fs := flag.NewFlagSet("replay", flag.ExitOnError)
	file := fs.String("file", "", "replay file")
	trace := fs.Bool("trace", false, "print the tail of the scheduling trace")
	repeat := fs.Int("repeat", 0, "execute the file this many more times in the same process and print the hashes")
	fs.Parse(args)
	rp, h, cfg, err := core.ReadReplay(*file)
	if err != nil {
		fmt.Fprintln(os.Stderr, err)
		os.Exit(2)
	}
	watchdog(5 * time.Minute)
	spinWatch(func(sp spinInfo) {
		hash := fmt.Sprintf("spin@%d", sp.Steps)
		found := sp.Signature == rp.Signature
		if found {
			fmt.Printf("REPRODUCED property=%s signature=%s hash=%s steps=%d\n%s\n", rp.Property, sp.Signature, hash, sp.Steps, sp.Detail)
		}
		out := map[string]any{"reproduced": found, "hash": hash, "hash_expected": rp.Hash, "hash_match": hash == rp.Hash,
			"violations": []core.Violation{{Prop: rp.Property, Signature: sp.Signature, Detail: sp.Detail}}, "end_reason": "spin"}
		b, _ := json.Marshal(out)
		fmt.Println("RESULT " + string(b))
		os.Exit(1)
	})
	o := core.Exec(h, cfg, rp.Script, true, *trace)
	for i := 0; i < *repeat; i++ {
		// self-test: the same scripted execution again in this process must give the same trace hash
		o2 := core.Exec(h, cfg, rp.Script, true, false)
		fmt.Printf("REPEAT %d hash=%016x steps=%d (first %016x steps=%d)\n", i+1, o2.Hash, o2.Steps, o.Hash, o.Steps)
	}
	hash := fmt.Sprintf("%016x", o.Hash)
	found := false
	for _, v := range o.For(rp.Property) {
		if v.Signature == rp.Signature {
			found = true
			fmt.Printf("REPRODUCED property=%s signature=%s hash=%s steps=%d sim_time=%v\n%s\n", rp.Property, v.Signature, hash, o.Steps, o.SimTime, v.Detail)
		}
	}
	if *trace {
		for _, l := range o.Trace {
			fmt.Println(l)
		}
	}
	out := map[string]any{"reproduced": found, "hash": hash, "hash_expected": rp.Hash, "hash_match": hash == rp.Hash, "violations": o.Violations, "end_reason": o.EndReason}
	b, _ := json.Marshal(out)
	fmt.Println("RESULT " + string(b))
	if found {
		os.Exit(1)
	}
	if len(o.For(rp.Property)) > 0 {
		fmt.Println("NOTE: a different violation of the same property was observed")
		os.Exit(1)
	}
	os.Exit(0)
}
