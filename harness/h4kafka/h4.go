// Package h4kafka is harness H4: the real Kafka input plugin over the simulated
// broker (simkgo) + a real pipeline (spread mode, as the plugin requests) +
// simsink. Decides C10.
package h4kafka

import (
	"context"
	"fmt"
	"math/rand/v2"
	"sort"
	"strconv"
	"strings"
	"time"

	"github.com/ozontech/file.d/fd"
	"github.com/ozontech/file.d/pipeline"
	_ "github.com/ozontech/file.d/plugin/input/kafka"
	"github.com/ozontech/file.d/zz_verifharness/core"
	"github.com/ozontech/file.d/zz_verifharness/h1pipe"
	"github.com/ozontech/file.d/zz_verifharness/simsink"
	"github.com/prometheus/client_golang/prometheus"
	"verif/simrt"
	"verif/simrt/simkgo"
)

func init() { core.Register(&H{}) }

type Rec struct {
	ID     int           `json:"id"`
	Topic  int           `json:"topic"`
	Part   int32         `json:"partition"`
	Offset int64         `json:"offset"`
	Epoch  int32         `json:"epoch"`
	Drop   bool          `json:"drop,omitempty"`
	Bad    int           `json:"bad,omitempty"` // the pipeline refuses the record at its entrance: 1 empty value (tombstone), 2 undecodable
	Pause  time.Duration `json:"pause,omitempty"`
}

type Cfg struct {
	Sim        simrt.Config   `json:"sim"`
	Topics     []string       `json:"topics"`
	Recs       []Rec          `json:"records"` // production order
	Preloaded  int            `json:"preloaded"`
	SingleProc bool           `json:"single_proc"`
	Capacity   int            `json:"capacity"`
	Pool       string         `json:"pool"`
	Sink       simsink.Config `json:"sink"`
	MaxPoll    int            `json:"max_poll"`
	HasAction  bool           `json:"has_action"`
	// Restarts of the consumer: a kill at a seeded instant (only what the broker holds survives) or a
	// graceful Pipeline.Stop, each followed by a fresh pipeline + plugin + client in the same group.
	Restarts []Restart `json:"restarts,omitempty"`
}

type Restart struct {
	At       time.Duration `json:"at"`
	Graceful bool          `json:"graceful,omitempty"`
}

func (c *Cfg) SimCfg() *simrt.Config { return &c.Sim }

type H struct{}

func (h *H) Name() string     { return "h4kafka" }
func (h *H) Props() []string  { return []string{"C10"} }
func (h *H) NewCfg() core.Cfg { return &Cfg{} }

func (h *H) Gen(rng *rand.Rand, tier, prop string) core.Cfg {
	c := &Cfg{}
	c.Sim = simrt.Config{PSwitch: core.Pick(rng, 0.01, 0.05, 0.2), StepCost: time.Microsecond, MaxSteps: 2_000_000, Horizon: time.Hour,
		Faults: map[string]float64{}, Boost: map[string]float64{}, Procs: core.Pick(rng, 1, 2, 4)}
	all := []string{"zeta", "alpha", "mid"}
	nt := core.Between(rng, 1, 3)
	perm := rng.Perm(3)
	for i := 0; i < nt; i++ {
		c.Topics = append(c.Topics, all[perm[i]])
	}
	if core.Chance(rng, 0.15) {
		// a topic listed twice (a configuration slip the plugin tolerates)
		at := rng.IntN(len(c.Topics)) + 1
		c.Topics = append(c.Topics[:at], append([]string{c.Topics[0]}, c.Topics[at:]...)...)
	}
	partChoices := []int32{0, 1, 7, 65535}
	type tpk struct {
		t int
		p int32
	}
	next := map[tpk]int64{}
	epoch := map[tpk]int32{}
	var tps []tpk
	for t := range c.Topics {
		dup := false
		for u := 0; u < t; u++ {
			if c.Topics[u] == c.Topics[t] {
				dup = true
			}
		}
		if dup {
			continue // the same topic listed twice is one topic on the broker
		}
		np := core.Between(rng, 1, 2)
		pp := rng.Perm(len(partChoices))
		for i := 0; i < np; i++ {
			k := tpk{t, partChoices[pp[i]]}
			tps = append(tps, k)
			next[k] = core.Pick(rng, int64(0), int64(5), int64(1)<<31, int64(1)<<46+int64(rng.IntN(1000)))
			epoch[k] = core.Pick(rng, int32(0), int32(1), int32(300), int32(65535))
		}
	}
	n := core.Between(rng, 2, 30)
	if tier == "thorough" {
		n = core.Between(rng, 2, 120)
	}
	c.HasAction = core.Chance(rng, 0.5)
	for i := 0; i < n; i++ {
		k := tps[rng.IntN(len(tps))]
		r := Rec{ID: i + 1, Topic: k.t, Part: k.p, Offset: next[k], Epoch: epoch[k]}
		next[k]++
		if core.Chance(rng, 0.05) {
			next[k] += int64(core.Between(rng, 1, 5)) // compacted / transactional gaps
		}
		if core.Chance(rng, 0.05) && epoch[k] < 65535 {
			epoch[k]++
		}
		if c.HasAction && core.Chance(rng, 0.2) {
			r.Drop = true
		}
		if core.Chance(rng, 0.06) {
			r.Bad = core.Between(rng, 1, 2)
		}
		if core.Chance(rng, 0.3) {
			r.Pause = core.DurBetween(rng, time.Millisecond, 300*time.Millisecond)
		}
		c.Recs = append(c.Recs, r)
	}
	c.Preloaded = rng.IntN(n + 1)
	c.SingleProc = core.Chance(rng, 0.4)
	c.Capacity = core.Pick(rng, 2, 4, 16, 64)
	c.Pool = core.Pick(rng, "std", "low_memory")
	c.MaxPoll = core.Pick(rng, 0, 1, 3, 8)
	c.Sink = simsink.Config{Name: "main", Workers: core.Between(rng, 1, 3), Count: core.Between(rng, 1, 8), Flush: core.DurBetween(rng, 10*time.Millisecond, time.Second),
		Retry: -1, Retention: core.DurBetween(rng, time.Millisecond, 100*time.Millisecond), Multiplier: 2, MaxLatency: core.Pick(rng, 0, 10*time.Millisecond, 200*time.Millisecond)}
	if core.Chance(rng, 0.3) {
		c.Sim.Faults["sink.fail"] = 0.2
	}
	if core.Chance(rng, 0.4) {
		c.Sim.Faults["kafka.rebalance"] = core.Pick(rng, 0.02, 0.1)
	}
	if core.Chance(rng, 0.2) {
		c.Sim.Faults["kafka.fetcherr"] = 0.05
	}
	c.Sim.QuietAt = 15 * time.Second
	if core.Chance(rng, 0.4) {
		at := time.Duration(0)
		for i, k := 0, core.Between(rng, 1, 2); i < k; i++ {
			at += core.DurBetween(rng, time.Millisecond, 2*time.Second)
			c.Restarts = append(c.Restarts, Restart{At: at, Graceful: core.Chance(rng, 0.3)})
		}
	}
	return c
}

func (h *H) Shrink(cc core.Cfg) []core.Cfg {
	c := cc.(*Cfg)
	var out []core.Cfg
	clone := func() *Cfg {
		d := *c
		d.Recs = append([]Rec(nil), c.Recs...)
		return &d
	}
	n := len(c.Recs)
	if n > 1 {
		d := clone()
		d.Recs = d.Recs[:n/2]
		d.Preloaded = min(d.Preloaded, len(d.Recs))
		out = append(out, d)
		d = clone()
		d.Recs = d.Recs[:n-1]
		d.Preloaded = min(d.Preloaded, len(d.Recs))
		out = append(out, d)
	}
	if n <= 12 {
		for i := 0; i < n; i++ {
			d := clone()
			d.Recs = append(d.Recs[:i:i], d.Recs[i+1:]...)
			d.Preloaded = min(d.Preloaded, len(d.Recs))
			out = append(out, d)
		}
	}
	if c.Preloaded < n {
		d := clone()
		d.Preloaded = n
		out = append(out, d)
	}
	for i := range c.Restarts {
		d := clone()
		d.Restarts = append(append([]Restart(nil), c.Restarts[:i]...), c.Restarts[i+1:]...)
		out = append(out, d)
		if c.Restarts[i].Graceful {
			d = clone()
			d.Restarts = append([]Restart(nil), c.Restarts...)
			d.Restarts[i].Graceful = false
			out = append(out, d)
		}
	}
	return out
}

type recState struct {
	rec      Rec
	consumed int
	finished bool
	finStep  int
	proc     int
	// a MarkCommitOffsets call moved the partition's head past this record while it was unfinished
	markPassed bool
}

type run struct {
	cfg             *Cfg
	o               *core.Outcome
	byKey           map[string]*recState // topic/partition/offset
	byID            map[int]*recState
	marks           int
	pendingSend     map[int][]int
	spreadExercised bool
	incarnation     int
}

func sortedIDs(m map[int]*recState) []int {
	ids := make([]int, 0, len(m))
	for id := range m {
		ids = append(ids, id)
	}
	sort.Ints(ids)
	return ids
}

func key(topic string, part int32, off int64) string {
	return topic + "/" + strconv.Itoa(int(part)) + "/" + strconv.FormatInt(off, 10)
}

// sink observer
func (r *run) OnOut(string, *pipeline.Event) {}
func (r *run) OnSendStart(sink string, batchNo, attempt int, iter, all []*pipeline.Event) {
	var ids []int
	for _, e := range iter {
		if n := e.Root.Dig("id"); n != nil {
			ids = append(ids, n.AsInt())
		}
	}
	r.pendingSend[batchNo] = ids
}
func (r *run) OnSendRet(sink string, batchNo, attempt int, failed bool) {
	if failed {
		return
	}
	for _, id := range r.pendingSend[batchNo] {
		if s := r.byID[id]; s != nil && !s.finished {
			s.finished, s.finStep = true, simrt.Steps()
		}
	}
	delete(r.pendingSend, batchNo)
}
func (r *run) OnGiveUp(string, int, []*pipeline.Event) {}

// dropAction discards events that carry "drop":true.
type dropAction struct{ r *run }

func (a *dropAction) Start(pipeline.AnyConfig, *pipeline.ActionPluginParams) {}
func (a *dropAction) Stop()                                                  {}
func (a *dropAction) Do(e *pipeline.Event) pipeline.ActionResult {
	if e.IsTimeoutKind() {
		return pipeline.ActionDiscard
	}
	if n := e.Root.Dig("drop"); n != nil && n.AsBool() {
		if id := e.Root.Dig("id"); id != nil {
			if s := a.r.byID[id.AsInt()]; s != nil && !s.finished {
				s.finished, s.finStep = true, simrt.Steps()
			}
		}
		return pipeline.ActionDiscard
	}
	return pipeline.ActionPass
}

var seq int

func (h *H) Run(cc core.Cfg, sim *simrt.Sim) *core.Outcome {
	cfg := cc.(*Cfg)
	o := &core.Outcome{NonTrivial: map[string]bool{}, Probes: map[string]int{}}
	r := &run{cfg: cfg, o: o, byKey: map[string]*recState{}, byID: map[int]*recState{}, pendingSend: map[int][]int{}}
	for _, rc := range cfg.Recs {
		s := &recState{rec: rc}
		r.byKey[key(cfg.Topics[rc.Topic], rc.Part, rc.Offset)] = s
		r.byID[rc.ID] = s
	}
	verdict := false
	reason := sim.Run(func() {
		b := simkgo.NewBroker()
		b.MaxPoll = cfg.MaxPoll
		mk := func(rc Rec) *simkgo.Record {
			v := fmt.Sprintf(`{"id":%d,"drop":%v}`, rc.ID, rc.Drop)
			switch rc.Bad {
			case 1:
				v = ""
			case 2:
				v = fmt.Sprintf(`{"id":%d,"dr`, rc.ID)
			}
			return &simkgo.Record{Value: []byte(v), Offset: rc.Offset, LeaderEpoch: rc.Epoch}
		}
		// every (topic, partition) exists from the start
		for i := 0; i < cfg.Preloaded; i++ {
			rc := cfg.Recs[i]
			b.Append(cfg.Topics[rc.Topic], rc.Part, mk(rc))
		}
		b.OnConsume = func(rec *simkgo.Record) {
			if s := r.byKey[key(rec.Topic, rec.Partition, rec.Offset)]; s != nil {
				s.consumed++
				if s.consumed > 1 {
					o.Probes["redelivered"]++
				}
				if s.rec.Bad != 0 && !s.finished {
					// refused at the pipeline's entrance (empty or undecodable): deliberately dropped, never marked itself
					s.finished, s.finStep = true, simrt.Steps()
				}
			}
		}
		b.OnMark = func(tp simkgo.TP, head, call simkgo.EpochOffset) { r.onMark(tp, head, call) }
		var curPipe *pipeline.Pipeline
		startIncarnation := func() int {
			seq++
			name := fmt.Sprintf("h4_%d", seq)
			return simrt.GoGroup("filed", func() {
				settings := &pipeline.Settings{
					Capacity: cfg.Capacity, MaintenanceInterval: 5 * time.Second, EventTimeout: time.Second,
					Antispam:     pipeline.AntispamSettings{Threshold: -1, MaintenanceInterval: 5 * time.Second},
					AvgEventSize: 128, StreamField: "stream", Decoder: "json", Pool: pipeline.PoolType(cfg.Pool), MetaCacheSize: 16,
					Metric: &pipeline.MetricSettings{HoldDuration: time.Minute},
				}
				p := pipeline.New(name, settings, prometheus.NewRegistry(), h1pipe.QuietLogger())
				if cfg.SingleProc {
					p.DisableParallelism()
				}
				static, err := fd.DefaultPluginRegistry.Get(pipeline.PluginKindInput, "kafka")
				if err != nil {
					panic(err)
				}
				js := fmt.Sprintf(`{"brokers":["sim:9092"],"topics":["%s"],"consumer_group":"g","auto_commit_interval":"200ms"}`, strings.Join(cfg.Topics, `","`))
				conf, err := pipeline.GetConfig(static, []byte(js), map[string]int{"gomaxprocs": 1, "capacity": cfg.Capacity})
				if err != nil {
					panic(fmt.Sprintf("kafka config: %v", err))
				}
				info := *static
				info.Config = conf
				plugin, _ := static.Factory()
				p.SetInput(&pipeline.InputPluginInfo{PluginStaticInfo: &info, PluginRuntimeInfo: &pipeline.PluginRuntimeInfo{Plugin: plugin}})
				if cfg.HasAction {
					p.AddAction(&pipeline.ActionPluginStaticInfo{PluginStaticInfo: &pipeline.PluginStaticInfo{Type: "drop", Factory: func() (pipeline.AnyPlugin, pipeline.AnyConfig) { return &dropAction{r: r}, nil }}})
				}
				ctx, _ := simrt.ContextWithCancel(context.Background())
				p.SetOutput(&pipeline.OutputPluginInfo{PluginStaticInfo: &pipeline.PluginStaticInfo{Type: "simsink"}, PluginRuntimeInfo: &pipeline.PluginRuntimeInfo{Plugin: &simsink.Plugin{Cfg: cfg.Sink, Obs: r, Ctx: ctx}}})
				p.Start()
				curPipe = p // only a started pipeline is stopped gracefully (file.d never stops one that is still starting)
			})
		}
		grp := startIncarnation()
		restartsDone := len(cfg.Restarts) == 0
		if !restartsDone {
			simrt.Go("restarter", func() {
				t0 := simrt.SimNow()
				for _, rs := range cfg.Restarts {
					if d := t0 + rs.At - simrt.SimNow(); d > 0 {
						simrt.Sleep(d)
					}
					if rs.Graceful && curPipe != nil {
						curPipe.Stop()
						o.Probes["graceful-stops"]++
					} else {
						o.Probes["kills"]++
					}
					simrt.KillGroup(grp)
					r.pendingSend = map[int][]int{}
					r.incarnation++
					curPipe = nil
					grp = startIncarnation()
				}
				restartsDone = true
			})
		}
		for i := cfg.Preloaded; i < len(cfg.Recs); i++ {
			rc := cfg.Recs[i]
			if rc.Pause > 0 {
				simrt.Sleep(rc.Pause)
			} else {
				simrt.Point()
			}
			b.Append(cfg.Topics[rc.Topic], rc.Part, mk(rc))
		}
		// with a pool smaller than the batch size every batch waits for the flush time-out: allow for one flush per
		// record, twice (everything may be delivered again after a restart)
		deadline := simrt.SimNow() + cfg.Sim.QuietAt + 60*time.Second + time.Duration(2*len(cfg.Recs))*(cfg.Sink.Flush+cfg.Sink.MaxLatency+100*time.Millisecond)
		for simrt.SimNow() < deadline && !(r.allFinished() && restartsDone) {
			simrt.Sleep(200 * time.Millisecond)
		}
		simrt.Sleep(time.Second)
		if len(cfg.Restarts) > 0 && restartsDone {
			// "a restart of the consumer group from the committed offsets redelivers everything unfinished"
			for _, id := range sortedIDs(r.byID) {
				x := r.byID[id]
				if x.finished {
					continue
				}
				sig := "record-lost-after-restart"
				if x.markPassed && !cfg.SingleProc {
					// the consequence of a mark-past-unfinished-record/...spread... violation reported earlier in this run for this very record
					sig += "/a-mark-had-passed-it/records-of-one-partition-spread-over-several-processors"
				}
				com, has := b.Committed(simkgo.TP{Topic: cfg.Topics[x.rec.Topic], Partition: x.rec.Part})
				o.Violate("C10", sig, "record id %d (%s/%d offset %d, consumed %d times) was neither acknowledged by the output nor dropped in any incarnation, %v after the last restart; committed offset of the partition: %d (has commit: %v)",
					x.rec.ID, cfg.Topics[x.rec.Topic], x.rec.Part, x.rec.Offset, x.consumed, simrt.SimNow()-cfg.Restarts[len(cfg.Restarts)-1].At, com.Offset, has)
				break
			}
		}
		verdict = true
		simrt.Stop("done")
	})
	o.EndReason = reason
	if reason == "died" {
		o.Violate("C10", "died", "kafka pipeline died: %s", sim.Died())
	} else if !verdict {
		o.Inconclusive = "ended by " + reason
	}
	o.NonTrivial["C10"] = r.marks > 1
	o.Summary = map[string]any{"records": len(cfg.Recs), "topics": cfg.Topics, "marks": r.marks}
	return o
}

func (r *run) allFinished() bool {
	for _, s := range r.byID {
		if !s.finished {
			return false
		}
	}
	return true
}

func (r *run) onMark(tp simkgo.TP, head, call simkgo.EpochOffset) {
	r.marks++
	o := r.o
	// 1. the mark names a record consumed from this very topic and partition, with its leader epoch
	s := r.byKey[key(tp.Topic, tp.Partition, call.Offset-1)]
	if s == nil || s.consumed == 0 {
		o.Violate("C10", "mark-for-unconsumed-offset", "MarkCommitOffsets(%s/%d offset %d epoch %d): no record with offset %d was consumed from that topic and partition", tp.Topic, tp.Partition, call.Offset, call.Epoch, call.Offset-1)
		return
	}
	if s.rec.Epoch != call.Epoch {
		o.Violate("C10", "wrong-leader-epoch", "MarkCommitOffsets(%s/%d offset %d) carries epoch %d, the record's leader epoch is %d", tp.Topic, tp.Partition, call.Offset, call.Epoch, s.rec.Epoch)
	}
	if head.Offset < 0 {
		return // partition not assigned at the moment: the client ignores the mark
	}
	// 2./3. nothing unfinished below the marked head
	var maxConsumed int64 = -1
	var passed *recState
	for _, id := range sortedIDs(r.byID) {
		x := r.byID[id]
		if r.cfg.Topics[x.rec.Topic] != tp.Topic || x.rec.Part != tp.Partition || x.consumed == 0 {
			continue
		}
		if x.rec.Offset > maxConsumed {
			maxConsumed = x.rec.Offset
		}
		if !x.finished && x.rec.Offset < head.Offset {
			x.markPassed = true
			if passed == nil || x.rec.Offset < passed.rec.Offset {
				passed = x
			}
		}
	}
	if x := passed; x != nil {
		sig := "mark-past-unfinished-record/records-of-one-partition-spread-over-several-processors"
		if r.cfg.SingleProc {
			sig = "mark-past-unfinished-record/single-processor"
		}
		o.Violate("C10", sig, "after MarkCommitOffsets(%s/%d offset %d) the marked offset is %d, but record offset %d (id %d) of that partition was consumed and is neither acknowledged by the output nor dropped; a restart from the committed offset would skip it", tp.Topic, tp.Partition, call.Offset, head.Offset, x.rec.Offset, x.rec.ID)
		return
	}
	if head.Offset > maxConsumed+1 {
		o.Violate("C10", "mark-beyond-consumed", "marked offset %d of %s/%d is more than one past the highest consumed offset %d", head.Offset, tp.Topic, tp.Partition, maxConsumed)
	}
}
