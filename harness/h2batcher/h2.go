// Package h2batcher drives pipeline.Batcher / pipeline.RetriableBatcher
// directly (harness family H2): producers, a recording controller, a send
// function with scripted latency and failures, Stop at a seeded instant.
// Decides C08 and the batcher-level part of C09.
package h2batcher

import (
	"context"
	"errors"
	"fmt"
	"math/rand/v2"
	"sort"
	"strings"
	"time"

	"github.com/ozontech/file.d/metric"
	"github.com/ozontech/file.d/pipeline"
	"github.com/ozontech/file.d/zz_verifharness/core"
	insaneJSON "github.com/ozontech/insane-json"
	"github.com/prometheus/client_golang/prometheus"
	"verif/simrt"
)

func init() {
	core.Register(&H{name: "h2batcher", props: []string{"C08"}})
	core.Register(&H{name: "h2retry", props: []string{"C09", "C08"}, retry: true})
}

type AddOp struct {
	Size  int           `json:"size"`
	Kind  int           `json:"kind"` // 0 regular, 1 child, 2 child-parent
	Pause time.Duration `json:"pause"`
}

type RetryCfg struct {
	AttemptNum int           `json:"attempt_num"`
	Retention  time.Duration `json:"retention"`
	Multiplier float64       `json:"multiplier"`
	DLQ        bool          `json:"dead_queue"`
	// FailPlan[i] = number of failing attempts of the i-th batch handed to the
	// send function (-1 = always fails); batches beyond the plan succeed.
	FailPlan []int         `json:"fail_plan"`
	DLQFlush time.Duration `json:"dlq_flush"`
	DLQCount int           `json:"dlq_count"`
}

type Cfg struct {
	Sim       simrt.Config    `json:"sim"`
	Workers   int             `json:"workers"`
	Count     int             `json:"count"`
	Bytes     int             `json:"bytes"`
	Flush     time.Duration   `json:"flush"`
	Producers [][]AddOp       `json:"producers"`
	Latencies []time.Duration `json:"latencies"`
	StopAt    time.Duration   `json:"stop_at"` // 0: never stopped
	Retry     *RetryCfg       `json:"retry,omitempty"`
}

func (c *Cfg) SimCfg() *simrt.Config { return &c.Sim }

type H struct {
	name  string
	props []string
	retry bool
}

func (h *H) Name() string     { return h.name }
func (h *H) Props() []string  { return h.props }
func (h *H) NewCfg() core.Cfg { return &Cfg{} }

func (h *H) Gen(rng *rand.Rand, tier, prop string) core.Cfg {
	c := &Cfg{}
	c.Sim = simrt.Config{
		PSwitch:  core.Pick(rng, 0.01, 0.05, 0.1, 0.2, 0.4),
		StepCost: time.Duration(core.Between(rng, 0, 5)) * time.Microsecond,
		MaxSteps: 400_000,
		Horizon:  4 * time.Hour,
		Boost:    map[string]float64{},
	}
	if core.Chance(rng, 0.3) {
		c.Sim.Boost["chan"] = 3
		c.Sim.Boost["mutex"] = 2
	}
	if core.Chance(rng, 0.15) {
		c.Sim.PCT = core.Between(rng, 1, 3)
		c.Sim.PCTLen = 2000
	}
	c.Workers = core.Between(rng, 1, 4)
	for c.Count == 0 && c.Bytes == 0 {
		if core.Chance(rng, 0.8) {
			c.Count = core.Between(rng, 1, 8)
		}
		if core.Chance(rng, 0.4) {
			c.Bytes = core.Between(rng, 1, 200)
		}
	}
	c.Flush = core.DurBetween(rng, 10*time.Millisecond, 2*time.Second)
	np := core.Between(rng, 1, 4)
	maxOps := 12
	if tier == "thorough" {
		maxOps = 30
	}
	for p := 0; p < np; p++ {
		n := core.Between(rng, 1, maxOps)
		ops := make([]AddOp, n)
		for i := range ops {
			ops[i].Size = core.Between(rng, 1, 100)
			if core.Chance(rng, 0.15) {
				ops[i].Kind = core.Between(rng, 1, 2)
			}
			switch {
			case core.Chance(rng, 0.6):
			case core.Chance(rng, 0.7):
				ops[i].Pause = core.DurBetween(rng, time.Millisecond, c.Flush)
			default:
				ops[i].Pause = core.DurBetween(rng, c.Flush, 4*c.Flush+time.Second) // traffic stops mid-batch
			}
		}
		c.Producers = append(c.Producers, ops)
	}
	nl := core.Between(rng, 1, 8)
	for i := 0; i < nl; i++ {
		if core.Chance(rng, 0.3) {
			c.Latencies = append(c.Latencies, 0)
		} else {
			c.Latencies = append(c.Latencies, core.DurBetween(rng, time.Millisecond, 500*time.Millisecond))
		}
	}
	if !h.retry && core.Chance(rng, 0.5) {
		c.StopAt = core.DurBetween(rng, time.Millisecond, 3*time.Second)
	}
	if h.retry && core.Chance(rng, 0.25) {
		// Router.Stop while batches are being retried: the outputs are stopped one after the other
		c.StopAt = core.DurBetween(rng, time.Millisecond, 3*time.Second)
	}
	if h.retry {
		r := &RetryCfg{
			AttemptNum: core.Pick(rng, -3, -1, 0, 0, 1, 1, 2, 3, 5, 8, 12),
			Retention:  core.DurBetween(rng, time.Millisecond, 2*time.Second),
			Multiplier: core.Pick(rng, 1.0, 1.5, 2.0, 2.0, 3.0),
			DLQ:        core.Chance(rng, 0.5),
			DLQFlush:   core.DurBetween(rng, 10*time.Millisecond, 2*time.Second),
			DLQCount:   core.Between(rng, 1, 6),
		}
		if core.Chance(rng, 0.12) {
			// long retentions: elapsed simulated time crosses many minutes
			r.Retention = core.DurBetween(rng, 5*time.Second, 30*time.Second)
			r.AttemptNum = core.Pick(rng, 12, 20, 40)
		}
		nb := core.Between(rng, 1, 10)
		for i := 0; i < nb; i++ {
			switch {
			case core.Chance(rng, 0.4):
				r.FailPlan = append(r.FailPlan, 0)
			case core.Chance(rng, 0.25):
				r.FailPlan = append(r.FailPlan, -1)
			default:
				r.FailPlan = append(r.FailPlan, core.Between(rng, 1, max(1, r.AttemptNum+2)))
			}
		}
		c.Retry = r
		c.Sim.MaxSteps = 3_000_000
		c.Sim.Horizon = 45 * time.Minute
		if r.Retention < 5*time.Second {
			// the horizon must lie far behind the longest time the scripted failures can take (simulated time is free):
			// a run that is still retrying at the horizon is then really stuck, not merely slow
			if b := 3 * planBound(r); b > c.Sim.Horizon {
				c.Sim.Horizon = b
			}
		}
	}
	return c
}

// planBound is a generous upper bound of the simulated time the scripted failure plan can keep a worker
// busy: per failing batch its attempts, each followed by a pause of at most 1.5 x the nominal interval,
// the interval taken as capped at two minutes (the library caps it earlier).
func planBound(r *RetryCfg) time.Duration {
	var total time.Duration
	for _, f := range r.FailPlan {
		n := f
		if r.AttemptNum >= 0 && (f < 0 || f > r.AttemptNum+1) {
			n = r.AttemptNum + 1
		}
		if n < 0 {
			continue // unlimited retries of a batch that never succeeds: legitimately endless
		}
		iv := float64(r.Retention)
		for i := 0; i < n; i++ {
			d := iv
			if d > float64(2*time.Minute) {
				d = float64(2 * time.Minute)
			}
			total += time.Duration(1.5*d) + time.Second
			iv *= r.Multiplier
		}
	}
	return total
}

func (h *H) Shrink(cc core.Cfg) []core.Cfg {
	c := cc.(*Cfg)
	var out []core.Cfg
	clone := func() *Cfg {
		d := *c
		d.Producers = make([][]AddOp, len(c.Producers))
		for i := range c.Producers {
			d.Producers[i] = append([]AddOp(nil), c.Producers[i]...)
		}
		d.Latencies = append([]time.Duration(nil), c.Latencies...)
		if c.Retry != nil {
			r := *c.Retry
			r.FailPlan = append([]int(nil), c.Retry.FailPlan...)
			d.Retry = &r
		}
		return &d
	}
	// drop a producer
	for i := range c.Producers {
		if len(c.Producers) > 1 {
			d := clone()
			d.Producers = append(d.Producers[:i], d.Producers[i+1:]...)
			out = append(out, d)
		}
	}
	// halve / trim producers
	for i := range c.Producers {
		if n := len(c.Producers[i]); n > 1 {
			d := clone()
			d.Producers[i] = d.Producers[i][:n/2]
			out = append(out, d)
			d = clone()
			d.Producers[i] = d.Producers[i][:n-1]
			out = append(out, d)
		}
	}
	if c.Workers > 1 {
		d := clone()
		d.Workers--
		out = append(out, d)
	}
	if len(c.Latencies) > 1 {
		d := clone()
		d.Latencies = d.Latencies[:len(d.Latencies)/2]
		out = append(out, d)
	}
	// plain events, no pauses
	for i := range c.Producers {
		for j := range c.Producers[i] {
			if c.Producers[i][j].Kind != 0 || c.Producers[i][j].Pause != 0 {
				d := clone()
				d.Producers[i][j].Kind = 0
				d.Producers[i][j].Pause = 0
				out = append(out, d)
			}
		}
	}
	if c.Retry != nil && len(c.Retry.FailPlan) > 1 {
		d := clone()
		d.Retry.FailPlan = d.Retry.FailPlan[:len(d.Retry.FailPlan)-1]
		out = append(out, d)
	}
	return out
}

// ---- run ----

type evInfo struct {
	id       int
	producer int
	seqInP   int
	op       AddOp
	ev       *pipeline.Event
	addCall  time.Duration
	addRet   time.Duration
	addRetOK bool
	sentIn   []int // out calls (first attempts) that contained it
	commits  []commitRec
	fails    int
	dlqSent  int
}

type commitRec struct {
	t      time.Duration
	step   int
	issuer string
	order  int
}

type outCall struct {
	n        int
	sink     string
	seq      int64
	ids      []int // all events incl. parents
	iter     []int // events seen through ForEach
	bytes    int
	lastSize int
	attempts []attempt
	gaveUp   bool
	onErrors int
	done     bool
	doneAt   time.Duration
}

type attempt struct {
	start, ret time.Duration
	failed     bool
}

type run struct {
	cfg                *Cfg
	o                  *core.Outcome
	evs                []*evInfo
	byPtr              map[*pipeline.Event]*evInfo
	outs               []*outCall
	ncommit            int
	stopCall, stopRet  time.Duration
	stopped, stopDone  bool
	addInFlight        int
	inFlightSends      int
	maxOverlap         int
	finishedOutOfOrder bool
	stopRacedAdd       bool
	errorsReported     int
	curOut             map[*pipeline.Batch]*outCall
	batchNo            map[string]int
	legitBlocked       bool
}

type ctl struct {
	r      *run
	issuer string
}

func (c *ctl) Commit(e *pipeline.Event) {
	r := c.r
	info := r.byPtr[e]
	if info == nil {
		r.o.Violate(propOf(r), "commit-of-unknown-event", "Commit called with an event the harness never added")
		return
	}
	r.ncommit++
	info.commits = append(info.commits, commitRec{t: simrt.SimNow(), step: simrt.Steps(), issuer: c.issuer, order: r.ncommit})
}
func (c *ctl) Error(string) { c.r.errorsReported++ }

func propOf(r *run) string {
	if r.cfg.Retry != nil {
		return "C09"
	}
	return "C08"
}

var pipeSeq int

func (h *H) Run(cc core.Cfg, sim *simrt.Sim) *core.Outcome {
	cfg := cc.(*Cfg)
	o := &core.Outcome{NonTrivial: map[string]bool{}, Probes: map[string]int{}}
	r := &run{cfg: cfg, o: o, byPtr: map[*pipeline.Event]*evInfo{}, curOut: map[*pipeline.Batch]*outCall{}, batchNo: map[string]int{}}
	pipeSeq++
	name := fmt.Sprintf("h2_%d", pipeSeq)
	var evaluated bool
	reason := sim.Run(func() {
		ctx, cancel := simrt.ContextWithCancel(context.Background())
		_ = cancel
		reg := prometheus.NewRegistry()
		mctl := metric.NewCtl(name, reg, 0, 0)
		var add func(*pipeline.Event)
		var stop func()
		if cfg.Retry == nil {
			b := pipeline.NewBatcher(pipeline.BatcherOptions{
				PipelineName: name, OutputType: "sim", Controller: &ctl{r: r, issuer: "main"}, Workers: cfg.Workers,
				BatchSizeCount: cfg.Count, BatchSizeBytes: cfg.Bytes, FlushTimeout: cfg.Flush, MetricCtl: mctl,
				OutFn: func(_ *pipeline.WorkerData, batch *pipeline.Batch) { r.send("main", batch, nil) },
			})
			b.Start(ctx)
			add, stop = b.Add, b.Stop
		} else {
			rc := cfg.Retry
			router := pipeline.NewRouter()
			mainSink := &sink{r: r, name: "main", retry: rc, workers: cfg.Workers, count: cfg.Count, bytes: cfg.Bytes, flush: cfg.Flush, mctl: mctl, ctx: ctx}
			router.SetOutput(&pipeline.OutputPluginInfo{PluginStaticInfo: &pipeline.PluginStaticInfo{Type: "simmain"}, PluginRuntimeInfo: &pipeline.PluginRuntimeInfo{Plugin: mainSink}})
			if rc.DLQ {
				dlq := &sink{r: r, name: "dlq", workers: 1, count: rc.DLQCount, flush: rc.DLQFlush, mctl: metric.NewCtl(name+"_dlq", reg, 0, 0), ctx: ctx}
				router.SetDeadQueueOutput(&pipeline.OutputPluginInfo{PluginStaticInfo: &pipeline.PluginStaticInfo{Type: "simdlq"}, PluginRuntimeInfo: &pipeline.PluginRuntimeInfo{Plugin: dlq}})
			}
			router.Start(&pipeline.OutputPluginParams{Controller: &ctl{r: r, issuer: "?"}})
			add, stop = router.Out, router.Stop
		}
		var wg simrt.WaitGroup
		for p, ops := range cfg.Producers {
			p, ops := p, ops
			wg.Add(1)
			simrt.Go(fmt.Sprintf("producer%d", p), func() {
				defer wg.Done()
				for i, op := range ops {
					if op.Pause > 0 {
						simrt.Sleep(op.Pause)
					}
					e := &pipeline.Event{Root: insaneJSON.Spawn(), Size: op.Size}
					switch op.Kind {
					case 1:
						e.SetChildKind()
					case 2:
						e.SetChildParentKind()
					}
					info := &evInfo{id: len(r.evs), producer: p, seqInP: i, op: op, ev: e, addCall: simrt.SimNow()}
					r.evs = append(r.evs, info)
					r.byPtr[e] = info
					r.addInFlight++
					add(e)
					r.addInFlight--
					info.addRet = simrt.SimNow()
					info.addRetOK = true
				}
			})
		}
		if cfg.StopAt > 0 {
			simrt.Go("stopper", func() {
				simrt.Sleep(cfg.StopAt)
				r.stopCall = simrt.SimNow()
				r.stopped = true
				if r.addInFlight > 0 {
					r.stopRacedAdd = true
				}
				stop()
				r.stopRet = simrt.SimNow()
				r.stopDone = true
			})
		}
		wg.Wait()
		// quiet tail: everything that can be flushed must be flushed by now
		tail := 2*cfg.Flush + 5*time.Second
		stopScenario := cfg.Retry != nil && cfg.StopAt > 0
		if cfg.Retry != nil {
			tail += 2*cfg.Retry.DLQFlush + r.retryTail()
			// wait until every batch has finished its attempts (bounded by horizon)
			if !stopScenario {
				simrt.WaitUntil(func() bool { return r.allOutsDone() })
			}
		}
		if cfg.StopAt > 0 {
			simrt.WaitUntil(func() bool { return r.stopDone })
		}
		simrt.Sleep(tail)
		if stopScenario {
			// Router.Stop in the middle of retries: what is in flight at that moment is legitimately left
			// unfinished, so only the invariants checked while the run proceeds apply (no hand-over to an
			// output that has been stopped, no double commit, no death)
			o.Probes["router-stop-while-retrying"]++
		} else {
			r.evaluate()
		}
		evaluated = true
		simrt.Stop("done")
	})
	o.EndReason = reason
	if reason == "died" {
		sig := "died/other"
		d := sim.Died()
		switch {
		case strings.Contains(d, "send on closed channel"):
			sig = "died/send-on-closed-channel"
		case strings.Contains(d, "close of closed channel"):
			sig = "died/close-of-closed-channel"
		}
		o.Violate(propOf(r), sig, "process died: %s", d)
	} else if !evaluated {
		if reason == "steps" {
			o.Inconclusive = "step budget"
		} else {
			// horizon or quiescent before the verdict point: something never finished
			r.evaluateStuck(reason)
		}
	}
	o.NonTrivial["C08"] = r.maxOverlap >= 2 || r.stopRacedAdd || r.finishedOutOfOrder
	o.NonTrivial["C09"] = r.anyRetry()
	if r.cfg.Retry != nil {
		// the batcher's own clauses (every added event committed once, after its send returned; nothing stuck) hold
		// for the batcher inside a RetriableBatcher too: what a retry run reports about them also counts for C08
		o.NonTrivial["C08"] = o.NonTrivial["C08"] || r.anyRetry()
		for _, v := range append([]core.Violation(nil), o.Violations...) {
			if v.Prop != "C09" {
				continue
			}
			for _, pre := range []string{"stuck/", "add-never-returned", "sent-not-committed", "commit-before-send-returned", "double-commit", "died/"} {
				if strings.HasPrefix(v.Signature, pre) {
					o.Violate("C08", v.Signature, "%s", v.Detail)
					break
				}
			}
		}
	}
	o.Probes["later-batch-finished-first"] += b2i(r.finishedOutOfOrder)
	o.Probes["stop-raced-add"] += b2i(r.stopRacedAdd)
	o.Probes["sends-overlapped"] += b2i(r.maxOverlap >= 2)
	o.Summary = map[string]any{"events": len(r.evs), "batches": len(r.outs), "commits": r.ncommit, "stopped": r.stopped, "max_overlap": r.maxOverlap}
	return o
}

func b2i(b bool) int {
	if b {
		return 1
	}
	return 0
}

func (r *run) retryTail() time.Duration { return 10 * time.Second }

func (r *run) allOutsDone() bool {
	if r.addInFlight > 0 {
		return false
	}
	for _, oc := range r.outs {
		if !oc.done {
			return false
		}
	}
	for _, e := range r.evs {
		if len(e.commits) == 0 {
			return false
		}
	}
	return true
}

func (r *run) anyRetry() bool {
	for _, oc := range r.outs {
		if len(oc.attempts) > 1 {
			return true
		}
	}
	return false
}

var errSend = errors.New("simulated send failure")

// send is the (retriable) out function: one call = one attempt.
func (r *run) send(sinkName string, batch *pipeline.Batch, rc *RetryCfg) error {
	oc := r.curOut[batch]
	if oc == nil {
		oc = &outCall{n: len(r.outs), sink: sinkName, seq: pipeline.VerifBatchSeq(batch)}
		for _, e := range pipeline.VerifBatchEvents(batch) {
			info := r.byPtr[e]
			if info == nil {
				r.o.Violate(propOf(r), "unknown-event-in-batch", "batch contains an event the harness never added")
				continue
			}
			oc.ids = append(oc.ids, info.id)
			oc.bytes += info.op.Size
			oc.lastSize = info.op.Size
			info.sentIn = append(info.sentIn, oc.n)
			if sinkName == "dlq" {
				info.dlqSent++
			}
		}
		batch.ForEach(func(e *pipeline.Event) {
			if info := r.byPtr[e]; info != nil {
				oc.iter = append(oc.iter, info.id)
			}
		})
		r.outs = append(r.outs, oc)
		r.curOut[batch] = oc
		r.batchNo[sinkName]++
	}
	planIdx := -1
	if rc != nil && sinkName == "main" {
		// index among main batches
		k := 0
		for _, x := range r.outs {
			if x == oc {
				break
			}
			if x.sink == "main" {
				k++
			}
		}
		planIdx = k
	}
	at := attempt{start: simrt.SimNow()}
	r.inFlightSends++
	if r.inFlightSends > r.maxOverlap {
		r.maxOverlap = r.inFlightSends
	}
	lat := r.cfg.Latencies[(oc.n+len(oc.attempts))%len(r.cfg.Latencies)]
	if lat > 0 {
		simrt.Sleep(lat)
	} else {
		simrt.Point()
	}
	r.inFlightSends--
	at.ret = simrt.SimNow()
	fail := false
	if planIdx >= 0 && planIdx < len(rc.FailPlan) {
		f := rc.FailPlan[planIdx]
		fail = f < 0 || len(oc.attempts) < f
	}
	at.failed = fail
	oc.attempts = append(oc.attempts, at)
	if !fail {
		r.finishOut(batch, oc)
		return nil
	}
	return errSend
}

func (r *run) finishOut(batch *pipeline.Batch, oc *outCall) {
	oc.done = true
	oc.doneAt = simrt.SimNow()
	delete(r.curOut, batch)
	for _, other := range r.outs {
		if other.sink == oc.sink && other.n < oc.n && !other.done {
			r.finishedOutOfOrder = true
		}
	}
}

// sink is an output plugin built the way the real ones are: RetriableBatcher,
// onError -> Router.Fail for every event.
type sink struct {
	r       *run
	name    string
	retry   *RetryCfg
	workers int
	count   int
	bytes   int
	flush   time.Duration
	mctl    *metric.Ctl
	ctx     context.Context
	batcher *pipeline.RetriableBatcher
	router  *pipeline.Router
	stopped bool // Stop() has returned
}

func (s *sink) Start(_ pipeline.AnyConfig, params *pipeline.OutputPluginParams) {
	s.router = params.Router
	opts := pipeline.BatcherOptions{PipelineName: "h2", OutputType: "sim" + s.name, Controller: &ctl{r: s.r, issuer: s.name}, Workers: s.workers,
		BatchSizeCount: s.count, BatchSizeBytes: s.bytes, FlushTimeout: s.flush, MetricCtl: s.mctl}
	bo := pipeline.BackoffOpts{AttemptNum: 0, MinRetention: time.Second, Multiplier: 2}
	if s.retry != nil {
		bo = pipeline.BackoffOpts{MinRetention: s.retry.Retention, Multiplier: s.retry.Multiplier, AttemptNum: s.retry.AttemptNum, IsDeadQueueAvailable: s.router.IsDeadQueueAvailable()}
	}
	var cur *pipeline.Batch
	_ = cur
	s.batcher = pipeline.NewRetriableBatcher(&opts, func(_ *pipeline.WorkerData, b *pipeline.Batch) error {
		return s.r.send(s.name, b, s.retry)
	}, bo, func(err error, events []*pipeline.Event) {
		// give-up: find the out call by its events
		var oc *outCall
		for _, e := range events {
			if info := s.r.byPtr[e]; info != nil && len(info.sentIn) > 0 {
				oc = s.r.outs[info.sentIn[len(info.sentIn)-1]]
				break
			}
		}
		if oc != nil {
			oc.gaveUp = true
			oc.onErrors++
			oc.done = true
			oc.doneAt = simrt.SimNow()
			for b, x := range s.r.curOut {
				if x == oc {
					delete(s.r.curOut, b)
				}
			}
		}
		for i := range events {
			if info := s.r.byPtr[events[i]]; info != nil {
				info.fails++
			}
			s.router.Fail(events[i])
		}
	})
	s.batcher.Start(s.ctx)
}
func (s *sink) Stop() {
	s.batcher.Stop()
	s.stopped = true
}

func (s *sink) Out(e *pipeline.Event) {
	if s.stopped && s.name != "main" { // the main output is fed by the harness's producers, which do not stop; the dead queue only by Router.Fail
		// its batcher ignores the event: it will never be sent and never be committed
		s.r.o.Violate("C09", "handed-to-stopped-output/"+s.name, "an event was handed to output %q at %v, after its Stop() had returned: the event is neither sent nor committed by anybody", s.name, simrt.SimNow())
	}
	s.batcher.Add(e)
}

// ---- oracles ----

func (r *run) evaluateStuck(reason string) {
	prop := propOf(r)
	if r.cfg.Retry != nil && r.cfg.Retry.AttemptNum < 0 {
		// infinite retries with an always-failing plan legitimately never finish
		for _, f := range r.cfg.Retry.FailPlan {
			if f < 0 {
				r.evaluate()
				return
			}
		}
	}
	pend := 0
	for _, e := range r.evs {
		if !e.addRetOK {
			pend++
		}
	}
	if r.cfg.Retry != nil && r.cfg.Retry.Retention >= 5*time.Second {
		// long-retention plans may simply not be finished at the horizon
		r.o.Inconclusive = "horizon before long-retention plan finished"
		return
	}
	r.o.Violate(prop, "stuck/"+reason, "run ended by %s before the verdict point: %d Add calls never returned, %d sends unfinished", reason, pend, len(r.curOut))
	r.evaluate()
}

func (r *run) evaluate() {
	cfg := r.cfg
	o := r.o
	prop := propOf(r)
	// "within the flush timeout (plus scheduling slack)": the slack is a constant second of simulated time, it does not
	// grow with the timeout (a batcher that needs two timeouts is late)
	slack := time.Second

	// (b) size bounds of every batch handed to the output
	for _, oc := range r.outs {
		cnt, byt := cfg.Count, cfg.Bytes
		if oc.sink == "dlq" {
			cnt, byt = cfg.Retry.DLQCount, 0
		}
		if cnt > 0 && len(oc.ids) > cnt {
			o.Violate("C08", "batch-over-count", "batch #%d of %s holds %d events, limit %d", oc.n, oc.sink, len(oc.ids), cnt)
		}
		if byt > 0 && oc.bytes-oc.lastSize >= byt {
			o.Violate("C08", "batch-over-bytes", "batch #%d holds %d bytes, %d before its last event, limit %d", oc.n, oc.bytes, oc.bytes-oc.lastSize, byt)
		}
		// ForEach hides exactly the child-parent events
		want := 0
		for _, id := range oc.ids {
			if r.evs[id].op.Kind != 2 {
				want++
			}
		}
		if want != len(oc.iter) {
			o.Violate("C08", "foreach-mismatch", "batch #%d: ForEach yielded %d events, %d non-parent events in batch", oc.n, len(oc.iter), want)
		}
	}

	// (c) per event: sent at most once per sink, committed at most once, commit after own send returned
	for _, e := range r.evs {
		mainSends := 0
		for _, n := range e.sentIn {
			if r.outs[n].sink == "main" {
				mainSends++
			}
		}
		if mainSends > 1 {
			o.Violate(prop, "event-in-two-batches", "event %d was handed to the output in %d batches", e.id, mainSends)
		}
		if len(e.commits) > 1 {
			o.Violate(prop, "double-commit", "event %d committed %d times (issuers %v)", e.id, len(e.commits), issuers(e))
		}
		for _, c := range e.commits {
			if len(e.sentIn) == 0 {
				if e.op.Kind != 2 {
					o.Violate("C08", "commit-without-send", "event %d committed at %v but never handed to the output", e.id, c.t)
				}
				continue
			}
			last := r.outs[e.sentIn[len(e.sentIn)-1]]
			if c.issuer == "main" {
				last = r.outs[e.sentIn[0]]
			}
			if !last.done || c.t < last.doneAt {
				o.Violate(prop, "commit-before-send-returned", "event %d committed at %v by %s; its batch #%d send returned at %v (done=%v)", e.id, c.t, c.issuer, last.n, last.doneAt, last.done)
			}
		}
	}

	// (d) commit order: batches in formation order, contiguous; per producer in Add order
	type cev struct {
		order int
		id    int
	}
	var all []cev
	for _, e := range r.evs {
		for _, c := range e.commits {
			all = append(all, cev{c.order, e.id})
		}
	}
	sort.Slice(all, func(i, j int) bool { return all[i].order < all[j].order })
	if cfg.Retry == nil {
		lastSeq := int64(-1)
		seen := map[int64]bool{}
		for _, c := range all {
			e := r.evs[c.id]
			if len(e.sentIn) == 0 {
				continue
			}
			seq := r.outs[e.sentIn[0]].seq
			if seq != lastSeq {
				if seen[seq] {
					o.Violate("C08", "batch-commits-interleaved", "commits of batch seq %d are not contiguous", seq)
				}
				if seq < lastSeq {
					o.Violate("C08", "batches-committed-out-of-order", "batch seq %d committed after batch seq %d", seq, lastSeq)
				}
				seen[seq] = true
				lastSeq = seq
			}
		}
		lastIn := map[int]int{}
		for _, c := range all {
			e := r.evs[c.id]
			if prev, ok := lastIn[e.producer]; ok && e.seqInP < prev {
				o.Violate("C08", "producer-order-broken", "producer %d: event #%d committed after its later event #%d", e.producer, e.seqInP, prev)
			}
			lastIn[e.producer] = e.seqInP
		}
	}

	// (e) completeness. A batch that legitimately retries for ever (unlimited
	// retries, sink never accepts it) holds back every later commit: nothing
	// can be concluded about completeness then.
	legitBlocked := false
	if cfg.Retry != nil && cfg.Retry.AttemptNum < 0 {
		k := 0
		for _, oc := range r.outs {
			if oc.sink != "main" {
				continue
			}
			if !oc.done && k < len(cfg.Retry.FailPlan) && cfg.Retry.FailPlan[k] < 0 {
				legitBlocked = true
			}
			k++
		}
	}
	r.legitBlocked = legitBlocked
	for _, e := range r.evs {
		if legitBlocked {
			break
		}
		sent := len(e.sentIn) > 0 && r.outs[e.sentIn[len(e.sentIn)-1]].done
		switch {
		case !e.addRetOK:
			if !r.stopped {
				o.Violate(prop, "add-never-returned", "Add of event %d (producer %d) never returned", e.id, e.producer)
			}
		case sent && len(e.commits) == 0:
			o.Violate(prop, "sent-not-committed", "event %d was sent (batch #%d) but never committed", e.id, e.sentIn[0])
		case !sent && len(e.sentIn) == 0 && len(e.commits) == 0 && !r.stopped && e.op.Kind != 2:
			o.Violate("C08", "never-flushed", "event %d added at %v was never handed to the output although nothing was stopped (flush %v, now %v)", e.id, e.addRet, cfg.Flush, simrt.SimNow())
		case !sent && len(e.sentIn) == 0 && len(e.commits) == 0 && !r.stopped && e.op.Kind == 2:
			o.Violate("C08", "never-flushed", "parent event %d added at %v was never committed", e.id, e.addRet)
		}
	}

	// (f) staleness: overdue while every worker was free for at least `slack`
	if cfg.Retry == nil {
		type iv struct{ a, b time.Duration }
		var busy []iv
		for _, oc := range r.outs {
			for _, at := range oc.attempts {
				busy = append(busy, iv{at.start, at.ret})
			}
		}
		sort.Slice(busy, func(i, j int) bool { return busy[i].a < busy[j].a })
		freeFor := func(from, to time.Duration) time.Duration {
			// longest sub-interval of [from,to] during which no send was in progress
			best := time.Duration(0)
			cur := from
			for _, b := range busy {
				if b.b <= cur {
					continue
				}
				if b.a >= to {
					break
				}
				if b.a > cur {
					best = max(best, b.a-cur)
				}
				cur = max(cur, b.b)
			}
			if to > cur {
				best = max(best, to-cur)
			}
			return best
		}
		for _, e := range r.evs {
			if !e.addRetOK || len(e.sentIn) == 0 {
				continue
			}
			if r.stopped && e.addRet >= r.stopCall {
				continue
			}
			oc := r.outs[e.sentIn[0]]
			start := oc.attempts[0].start
			due := e.addRet + cfg.Flush
			if start > due+slack && freeFor(due, start) >= slack {
				o.Violate("C08", "stale-batch", "event %d added at %v, flush timeout %v, handed to the output only at %v although all workers were free for >= %v in between", e.id, e.addRet, cfg.Flush, start, slack)
			}
		}
	}

	if cfg.Retry != nil {
		r.evaluateRetry()
	}
}

func issuers(e *evInfo) []string {
	var s []string
	for _, c := range e.commits {
		s = append(s, c.issuer)
	}
	return s
}

func (r *run) evaluateRetry() {
	o := r.o
	rc := r.cfg.Retry
	for _, oc := range r.outs {
		if oc.sink != "main" {
			continue
		}
		na := len(oc.attempts)
		if oc.gaveUp {
			if rc.AttemptNum >= 0 {
				if na < rc.AttemptNum+1 {
					elapsed := oc.attempts[na-1].ret - oc.attempts[0].start
					sig := "gave-up-early"
					if elapsed >= 10*time.Minute {
						sig = "gave-up-early/after-10-simulated-minutes"
					}
					o.Violate("C09", sig, "batch #%d given up after %d attempts, configured retries %d (elapsed %v)", oc.n, na, rc.AttemptNum, elapsed)
				}
			} else {
				elapsed := oc.attempts[na-1].ret - oc.attempts[0].start
				sig := "gave-up-with-infinite-retries"
				if elapsed >= 10*time.Minute {
					sig = "gave-up-with-infinite-retries/after-10-simulated-minutes"
				}
				o.Violate("C09", sig, "batch #%d given up after %d attempts although retry=%d means unlimited (elapsed %v)", oc.n, na, rc.AttemptNum, elapsed)
			}
			if oc.onErrors != 1 {
				o.Violate("C09", "error-callback-count", "batch #%d: error callback invoked %d times", oc.n, oc.onErrors)
			}
		} else if oc.done && na > 0 && oc.attempts[na-1].failed {
			o.Violate("C09", "finished-on-failed-attempt", "batch #%d finished without success and without give-up", oc.n)
		}
		// pauses
		var pauses []time.Duration
		for i := 1; i < na; i++ {
			pauses = append(pauses, oc.attempts[i].start-oc.attempts[i-1].ret)
		}
		for i, p := range pauses {
			if p < rc.Retention/2 {
				o.Violate("C09", "pause-too-short", "batch #%d: pause %d is %v, retention %v", oc.n, i, p, rc.Retention)
			}
		}
		grow := rc.Multiplier >= 2
		lim := float64(rc.Retention)
		for i := 0; i < len(pauses); i++ {
			lim *= rc.Multiplier
		}
		if grow && lim <= float64(10*time.Second) {
			for i := 0; i+2 < len(pauses); i++ {
				if pauses[i+2] < pauses[i] {
					o.Violate("C09", "pauses-not-growing", "batch #%d: pause[%d]=%v < pause[%d]=%v (multiplier %v)", oc.n, i+2, pauses[i+2], i, pauses[i], rc.Multiplier)
				}
			}
		}
		// commits vs attempts / routing
		for _, id := range oc.ids {
			e := r.evs[id]
			for _, c := range e.commits {
				if !oc.done || c.t < oc.doneAt {
					o.Violate("C09", "commit-while-retries-pending", "event %d committed at %v while batch #%d still had attempts pending (finished %v)", e.id, c.t, oc.n, oc.doneAt)
				}
			}
			if oc.gaveUp && rc.DLQ {
				if e.fails != 1 {
					o.Violate("C09", "dead-queue-handoff-count", "event %d handed to the dead queue %d times", e.id, e.fails)
				}
				// a child-parent event is hidden from the send function: it is "sent" only as part of a batch that has other events
				if e.dlqSent != 1 && !(e.op.Kind == 2 && e.dlqSent == 0) {
					o.Violate("C09", "dead-queue-send-count", "event %d sent by the dead-queue output %d times", e.id, e.dlqSent)
				}
				if !r.legitBlocked && (len(e.commits) != 1 || e.commits[0].issuer != "dlq") {
					o.Violate("C09", "dead-queue-commit", "event %d of given-up batch #%d: commits by %v, want exactly one by dlq", e.id, oc.n, issuers(e))
				}
			} else {
				if e.fails != 0 && !(oc.gaveUp && !rc.DLQ) {
					o.Violate("C09", "unexpected-dead-queue-handoff", "event %d handed to Router.Fail %d times although its batch succeeded", e.id, e.fails)
				}
				if oc.done && !r.legitBlocked && (len(e.commits) != 1 || e.commits[0].issuer != "main") {
					o.Violate("C09", "main-commit", "event %d of batch #%d: commits by %v, want exactly one by main", e.id, oc.n, issuers(e))
				}
			}
		}
	}
}
